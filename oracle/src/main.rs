//! Native helper for the /verif checks. It links the *real* wgsl_to_wgpu from /repo and the real naga.
//!
//! One JSON request per stdin line, one JSON answer per stdout line:
//!   {"cmd":"dump","wgsl":"..."}                       real naga parse -> Module + Layouter + TypeInner::size as JSON
//!   {"cmd":"gen","wgsl":"...","include":null|"p","options":{...}}   real create_shader_module* (panic captured)
//!   {"cmd":"lex","text":"..."}                        proc_macro2 tokenisation of Rust text (string literals unescaped by syn)
//!   {"cmd":"emit","wgsl":"...","options":{...}}       error rendering (emit_to_string*) for a failing source
use proc_macro2::{Delimiter, TokenStream, TokenTree};
use serde_json::{json, Value};
use std::io::{BufRead, Write};
use std::panic::{catch_unwind, AssertUnwindSafe};
use std::str::FromStr;

fn options(v: &Value) -> wgsl_to_wgpu::WriteOptions {
    let b = |k: &str| v.get(k).and_then(|x| x.as_bool()).unwrap_or(false);
    let mv = match v.get("matrix_vector_types").and_then(|x| x.as_str()).unwrap_or("Rust") {
        "Glam" => wgsl_to_wgpu::MatrixVectorTypes::Glam,
        "Nalgebra" => wgsl_to_wgpu::MatrixVectorTypes::Nalgebra,
        _ => wgsl_to_wgpu::MatrixVectorTypes::Rust,
    };
    let validate = match v.get("validate") {
        None | Some(Value::Null) | Some(Value::Bool(false)) => None,
        Some(Value::Number(n)) => Some(wgsl_to_wgpu::ValidationOptions {
            capabilities: wgsl_to_wgpu::WgslCapabilities::from_bits_truncate(n.as_u64().unwrap() as _),
        }),
        _ => Some(Default::default()),
    };
    wgsl_to_wgpu::WriteOptions {
        derive_bytemuck_vertex: b("derive_bytemuck_vertex"),
        derive_bytemuck_host_shareable: b("derive_bytemuck_host_shareable"),
        derive_encase_host_shareable: b("derive_encase_host_shareable"),
        derive_serde: b("derive_serde"),
        matrix_vector_types: mv,
        rustfmt: b("rustfmt"),
        validate,
    }
}

fn panic_msg(e: Box<dyn std::any::Any + Send>) -> String {
    if let Some(s) = e.downcast_ref::<&str>() {
        s.to_string()
    } else if let Some(s) = e.downcast_ref::<String>() {
        s.clone()
    } else {
        "<non-string panic>".into()
    }
}

fn err_json(e: &wgsl_to_wgpu::CreateModuleError) -> Value {
    use wgsl_to_wgpu::CreateModuleError as E;
    match e {
        E::NonConsecutiveBindGroups => json!({"kind":"NonConsecutiveBindGroups"}),
        E::DuplicateBinding { binding } => json!({"kind":"DuplicateBinding","binding":binding}),
        E::ParseError { error } => json!({"kind":"ParseError","message":error.to_string()}),
        E::ValidationError { error } => json!({"kind":"ValidationError","message":error.to_string()}),
        _ => json!({"kind":"Other","message":e.to_string()}),
    }
}

fn gen(req: &Value) -> Value {
    let wgsl = req["wgsl"].as_str().unwrap_or("");
    let include = req.get("include").and_then(|x| x.as_str());
    let opts = options(req.get("options").unwrap_or(&Value::Null));
    let r = catch_unwind(AssertUnwindSafe(|| match include {
        Some(p) => wgsl_to_wgpu::create_shader_module(wgsl, p, opts),
        None => wgsl_to_wgpu::create_shader_module_embedded(wgsl, opts),
    }));
    match r {
        Ok(Ok(text)) => json!({"ok": text}),
        Ok(Err(e)) => json!({"err": err_json(&e)}),
        Err(p) => json!({"panic": panic_msg(p)}),
    }
}

fn emit(req: &Value) -> Value {
    let wgsl = req["wgsl"].as_str().unwrap_or("");
    let opts = options(req.get("options").unwrap_or(&Value::Null));
    let r = catch_unwind(AssertUnwindSafe(|| {
        match wgsl_to_wgpu::create_shader_module_embedded(wgsl, opts) {
            Ok(_) => json!({"ok": true}),
            Err(e) => {
                let a = e.emit_to_string(wgsl);
                let b = e.emit_to_string_with_path(wgsl, "some/path.wgsl");
                json!({"err": err_json(&e), "emit": a, "emit_with_path": b})
            }
        }
    }));
    match r {
        Ok(v) => v,
        Err(p) => json!({"panic": panic_msg(p)}),
    }
}

/// many threads generate different shaders at the same time; every result must equal the sequential one
fn concurrent(req: &Value) -> Value {
    let sources: Vec<String> = req["sources"].as_array().map(|a| a.iter().filter_map(|x| x.as_str().map(String::from)).collect()).unwrap_or_default();
    let rounds = req.get("rounds").and_then(|x| x.as_u64()).unwrap_or(4) as usize;
    let opts = req.get("options").cloned().unwrap_or(Value::Null);
    let seq: Vec<Value> = sources.iter().map(|s| gen(&json!({"wgsl": s, "options": opts}))).collect();
    let mut handles = Vec::new();
    for r in 0..rounds {
        for (i, s) in sources.iter().enumerate() {
            let s = s.clone();
            let opts = opts.clone();
            let _ = r;
            handles.push((i, std::thread::spawn(move || gen(&json!({"wgsl": s, "options": opts})))));
        }
    }
    let mut equal = true;
    let n = handles.len();
    for (i, h) in handles {
        match h.join() {
            Ok(v) => {
                if v != seq[i] {
                    equal = false;
                }
            }
            Err(_) => equal = false,
        }
    }
    json!({"equal": equal, "threads": n})
}

/// several generations in ONE process, each with its own PATH (so a formatter can be present for one call and absent for the next)
fn seq(req: &Value) -> Value {
    let mut outs = Vec::new();
    if let Some(steps) = req["steps"].as_array() {
        for st in steps {
            if let Some(p) = st.get("path").and_then(|x| x.as_str()) {
                std::env::set_var("PATH", p);
            }
            outs.push(gen(st));
        }
    }
    json!({"outputs": outs})
}

fn tokens_json(ts: TokenStream) -> Value {
    let mut out = Vec::new();
    for tt in ts {
        out.push(match tt {
            TokenTree::Group(g) => {
                let d = match g.delimiter() {
                    Delimiter::Parenthesis => "()",
                    Delimiter::Brace => "{}",
                    Delimiter::Bracket => "[]",
                    Delimiter::None => "  ",
                };
                json!({"g": d, "t": tokens_json(g.stream())})
            }
            TokenTree::Ident(i) => json!({"i": i.to_string()}),
            TokenTree::Punct(p) => {
                json!({"p": p.as_char().to_string(), "j": matches!(p.spacing(), proc_macro2::Spacing::Joint)})
            }
            TokenTree::Literal(l) => {
                let repr = l.to_string();
                let mut v = json!({"l": repr});
                if let Ok(s) = syn::parse_str::<syn::LitStr>(&repr) {
                    v["s"] = Value::String(s.value());
                }
                v
            }
        });
    }
    Value::Array(out)
}

fn lex(req: &Value) -> Value {
    let text = req["text"].as_str().unwrap_or("");
    match catch_unwind(AssertUnwindSafe(|| TokenStream::from_str(text))) {
        Ok(Ok(ts)) => json!({"tokens": tokens_json(ts)}),
        Ok(Err(e)) => json!({"err": e.to_string()}),
        Err(p) => json!({"panic": panic_msg(p)}),
    }
}

fn dump(req: &Value) -> Value {
    let wgsl = req["wgsl"].as_str().unwrap_or("");
    let r = catch_unwind(AssertUnwindSafe(|| {
        let module = match naga::front::wgsl::parse_str(wgsl) {
            Ok(m) => m,
            Err(e) => return json!({"err": e.emit_to_string(wgsl)}),
        };
        let mut layouter = naga::proc::Layouter::default();
        let lay_ok = layouter.update(module.to_ctx()).is_ok();
        let mut layouts = Vec::new();
        let mut sizes = Vec::new();
        for (h, t) in module.types.iter() {
            if lay_ok {
                let l = layouter[h];
                layouts.push(json!({"size": l.size, "alignment": l.alignment.round_up(1)}));
            }
            sizes.push(json!(catch_unwind(AssertUnwindSafe(|| t.inner.size(module.to_ctx()))).ok()));
        }
        let valid = naga::valid::Validator::new(naga::valid::ValidationFlags::all(), naga::valid::Capabilities::all())
            .validate(&module)
            .map(|_| true)
            .unwrap_or(false);
        // verdict of the real validator under a restricted capability set (reference for "validation gates with the caller's capabilities")
        let valid_caps = req.get("caps").and_then(|c| c.as_u64()).map(|c| {
            naga::valid::Validator::new(naga::valid::ValidationFlags::all(), naga::valid::Capabilities::from_bits_truncate(c as _))
                .validate(&module)
                .is_ok()
        });
        json!({"module": serde_json::to_value(&module).unwrap(), "layouts": layouts, "sizes": sizes, "valid": valid, "valid_caps": valid_caps})
    }));
    match r {
        Ok(v) => v,
        Err(p) => json!({"panic": panic_msg(p)}),
    }
}

fn main() {
    std::panic::set_hook(Box::new(|_| {}));
    let stdin = std::io::stdin();
    let stdout = std::io::stdout();
    for line in stdin.lock().lines() {
        let line = match line {
            Ok(l) => l,
            Err(_) => break,
        };
        if line.trim().is_empty() {
            continue;
        }
        let req: Value = match serde_json::from_str(&line) {
            Ok(v) => v,
            Err(e) => {
                writeln!(stdout.lock(), "{}", json!({"bad_request": e.to_string()})).unwrap();
                continue;
            }
        };
        let ans = match req["cmd"].as_str().unwrap_or("") {
            "dump" => dump(&req),
            "gen" => gen(&req),
            "lex" => lex(&req),
            "emit" => emit(&req),
            "concurrent" => concurrent(&req),
            "seq" => seq(&req),
            other => json!({"bad_request": format!("unknown cmd {other}")}),
        };
        let mut o = stdout.lock();
        writeln!(o, "{}", ans).unwrap();
        o.flush().unwrap();
    }
}
