"""C08  Exactly the host-visible structs are emitted, once each.

Real code executed symbolically: structs (both filter closures) and add_types_recursive.
A usage graph over 4 structs + array types is symbolic: the type of 3 module-scope variables (any address space), the type
of the last member of S1/S2/S3 (scalar, an earlier struct, fixed / runtime / nested array of one), and the argument /
result types of a vertex and a fragment entry point.  Oracle: reachability closure written over the hole variables.
"""
import z3
from harness.common import *
from harness.structs_common import *
from mirsym.schema import mkflags

SRC = '''struct S0 { @location(0) a: f32 }
struct S1 { @location(0) a: f32, @location(1) m: f32 }
struct S2 { @location(0) a: f32, @location(1) m: f32 }
struct S3 { @location(0) a: f32, @location(1) m: f32, @location(2) m2: f32 }
struct Unused { @location(0) a: f32 }
struct P { @location(3) p: f32 }
struct BI { @builtin(vertex_index) vi: u32, @builtin(instance_index) ii: u32 }
alias A0 = array<S0, 2>;
alias A1 = array<S1, 2>;
alias A2 = array<S2, 2>;
alias R0 = array<S0>;
alias R1 = array<S1>;
alias AA0 = array<array<S0, 2>, 3>;
override TILE: u32 = 4u;
alias W1 = array<S1, TILE>;
var<private> g0: f32;
var<workgroup> g1: f32;
var<push_constant> g2: f32;
@vertex fn e0(a: S0, @location(7) b: f32, c: P, d: BI) -> @builtin(position) vec4<f32> { return vec4<f32>(0.0); }
@fragment fn e1(a: S0, c: P) -> @location(0) vec4<f32> { return vec4<f32>(0.0); }
'''
STRUCTS = ['S0', 'S1', 'S2', 'S3', 'Unused', 'P', 'BI']      # BI: a parameter struct made of builtins only (no field left, still a struct the caller names)
SPACES = ['Private', 'WorkGroup', 'Uniform', 'Storage', 'PushConstant']
ARG2_INDEX = {0: 2, 1: 1}          # position of the second struct parameter of e0 / e1


def run(ctx):
    S, c = ctx.S, ctx.S.conv
    d = S.dump(SRC)
    mj = d['module']
    H = {}
    for i, t in enumerate(mj['types']):
        if t['name']:
            H[t['name']] = i
    hf32 = next(i for i, t in enumerate(mj['types']) if t['inner'].get('Scalar') == {'kind': 'Float', 'width': 4})
    hvec4 = next(i for i, t in enumerate(mj['types']) if 'Vector' in t['inner'])
    inner_aa = mj['types'][H['AA0']]['inner']['Array']['base']
    # static edges of the type graph (array -> base)
    edges = {i: [t['inner']['Array']['base']] for i, t in enumerate(mj['types']) if 'Array' in t['inner']}
    n_types = len(mj['types'])
    ctx.bounds = {'address space of the 3 variables': f'symbolic over {SPACES} in every run', 'struct types': STRUCTS, 'array types': [k for k in H if k not in STRUCTS] + ['array<S0,2> (inner of AA0)'],
                  'symbolic': '3 variable types, 3 struct member types, 2 x 2 entry argument types (two struct parameters per entry point), 2 entry result types (2-5 symbolic per run)'}
    ctx.assumptions += ['if the code under test iterates a hash set (the pinned code only tests membership), two iteration orders are explored here (insertion, reverse); '
                        'that the output does not depend on the order at all is C18\'s claim, decided there with every permutation',
                        'struct definitions are acyclic (WGSL): the symbolic member of S_i names only S_j, j < i, or arrays of them',
                        'runtime-array members make the generator require encase (documented): the encase switch is on; refusals are not accepted shaders']
    holes = {}

    def mk(name, dom):
        t = z3.BitVec(name, 32)
        holes[name] = (t, dom)
        return t
    member_dom = {1: [hf32, H['S0'], H['A0'], H['R0'], H['AA0']], 2: [hf32, H['S0'], H['S1'], H['A1'], H['R1']],
                  3: [hf32, H['S1'], H['S2'], H['A2'], H['A0']]}
    gdom = [hf32, H['S0'], H['S1'], H['S2'], H['S3'], H['A0'], H['A2'], H['AA0'], H['R1'], H['W1']]     # W1: override-sized array (workgroup only)
    adom = [H['S0'], H['S1'], H['S3'], hvec4]
    vdom = [H['S0'], H['Unused']]      # vertex inputs must be flat structs of located scalars for the real pipeline
    rdom = [H['S0'], H['S1'], H['S3'], hvec4]
    defaults = {'g0': hf32, 'g1': hf32, 'g2': hf32, 'S1.m': hf32, 'S2.m': hf32, 'S3.m': hf32, 'S3.m2': hf32, 'e0.arg': H['S0'], 'e1.arg': H['S0'],
                'e0.arg2': H['P'], 'e1.arg2': H['P'], 'e0.res': hvec4, 'e1.res': hvec4}
    doms = {'g0': gdom, 'g1': gdom, 'g2': gdom, 'S1.m': member_dom[1], 'S2.m': member_dom[2], 'S3.m': member_dom[3], 'S3.m2': member_dom[3],
            'e0.arg': vdom, 'e1.arg': adom, 'e0.arg2': [H['P'], H['S0'], H['Unused']], 'e1.arg2': [H['P'], H['S0'], H['S1'], H['S3']], 'e0.res': rdom, 'e1.res': rdom}
    if ctx.tier == 'quick':
        # ('name', handle) pins a hole to a type for that run: a variable of type S3 whose two last members are symbolic, next to another variable
        plans = [['g0', 'S2.m'], ['g1', 'S3.m', 'e0.res'], ['e0.arg', 'e1.arg', 'e1.res'], ['g2', 'S1.m', 'e1.arg'], ['e0.arg2', 'e1.arg', 'e1.arg2'],
                 [('g2', H['S3']), ('g0', H['S1']), 'S3.m', 'S3.m2']]          # an EARLIER variable (g0: S1) may already have reached one of the member types
    else:
        plans = [['g0', 'S2.m', 'S3.m'], ['g1', 'S3.m', 'e0.res', 'e1.arg'], ['e0.arg', 'e1.arg', 'e1.res', 'e0.res'], ['e0.arg', 'e0.arg2', 'e1.arg', 'e1.arg2', 'g0'], ['g2', 'S1.m', 'S2.m', 'e1.arg'],
                 ['g0', 'g1', 'S1.m'], ['g0', 'S1.m', 'S2.m', 'S3.m'], [('g0', H['S3']), 'g2', 'S3.m', 'S3.m2'], [('g1', H['S3']), 'g0', 'S3.m', 'S3.m2', 'S2.m']]
    seen = {}
    opts_encase = dict(derive_encase_host_shareable=True)
    # which structs are emitted must not depend on the derive switches: one more pass with the bytemuck switches instead of encase
    # (runtime-sized arrays excluded there: the generator refuses them with bytemuck, as documented)
    opts_bytemuck = dict(derive_bytemuck_host_shareable=True, derive_bytemuck_vertex=True, derive_serde=True)
    plans = [(p_, opts_encase) for p_ in plans] + [(['g0', 'S1.m'], opts_bytemuck)]
    for plan, opts in plans:
        module = c.module(S.dump(SRC))
        types = c.get(module, 'types').fields[0].items
        gvs = c.get(module, 'global_variables').fields[0].items
        eps = c.get(module, 'entry_points').items
        terms, assume = {}, []
        pins = dict(x for x in plan if isinstance(x, tuple))
        plan = [x for x in plan if not isinstance(x, tuple)]
        for name in doms:
            t = z3.BitVec(name.replace('.', '_'), 32)
            terms[name] = t
            if name in plan:
                assume.append(z3.Or([t == v for v in doms[name]]))
            else:
                assume.append(t == pins.get(name, defaults[name]))
        AS = {v['name']: v['disc'] for v in S.schema['enums']['AddressSpace']}
        spaces = {}
        for i in range(3):
            c.set(gvs[i], 'ty', terms[f'g{i}'])
            # the address space of every variable is symbolic in every run (host visibility does not depend on it)
            sp_ = z3.BitVec(f'g{i}_space', 64)
            spaces[f'g{i}'] = sp_
            c.set(gvs[i], 'space', c.sym_enum('AddressSpace', sp_, {'Storage': [mkflags('StorageAccess', z3.BitVec(f'g{i}_access', 32))]}))
            assume.append(z3.Or([sp_ == AS[k] for k in SPACES]))
        # WGSL: a type containing a runtime-sized array lives in the storage address space
        rt1 = terms['S1.m'] == H['R0']
        rt2 = z3.Or(terms['S2.m'] == H['R1'], z3.And(z3.Or(terms['S2.m'] == H['S1'], terms['S2.m'] == H['A1']), rt1))
        rt3 = z3.Or([z3.Or(z3.And(terms[k_] == H['S1'], rt1), z3.And(z3.Or(terms[k_] == H['S2'], terms[k_] == H['A2']), rt2)) for k_ in ('S3.m', 'S3.m2')])
        for i in range(3):
            g_ = terms[f'g{i}']
            has_rt_ = z3.Or(g_ == H['R0'], g_ == H['R1'], z3.And(g_ == H['S1'], rt1), z3.And(z3.Or(g_ == H['S2'], g_ == H['A2']), rt2), z3.And(g_ == H['S3'], rt3))
            assume.append(z3.Implies(has_rt_, spaces[f'g{i}'] == AS['Storage']))
            assume.append(z3.Implies(g_ == H['W1'], spaces[f'g{i}'] == AS['WorkGroup']))        # WGSL: override-sized arrays live in workgroup memory
        if opts is opts_bytemuck:
            assume += [terms[k_] != H[r_] for k_ in terms for r_ in ('R0', 'R1')]
        space_of = lambda m_: {k: next(n_ for n_ in SPACES if AS[n_] == model_value(m_, v)) for k, v in spaces.items()}
        for i in (1, 2, 3):
            ms = c.get(types[H[f'S{i}']], 'inner').fields[0].items
            c.set(ms[1], 'ty', terms[f'S{i}.m'])
            if i == 3:
                c.set(ms[2], 'ty', terms['S3.m2'])
        for i in range(2):
            fn = c.get(eps[i], 'function')
            args = c.get(fn, 'arguments').items
            c.set(args[0], 'ty', terms[f'e{i}.arg'])
            c.set(args[ARG2_INDEX[i]], 'ty', terms[f'e{i}.arg2'])
            res = c.get(fn, 'result').fields[0]
            c.set(res, 'ty', terms[f'e{i}.res'])
        res = ctx.explore(f'structs/usage-graph-{"+".join(plan)}{"/pinned" if pins else ""}',
                          lambda it: it.call('structs', [mkref(module), write_options(S.conv, **opts)]),
                          assume=assume, env={'hash_orders': 'two'}, anchors=['structs', 'add_types_recursive', 'rust_struct'], timeout_s=3000)
        want = reference(terms, H, edges, n_types)
        reach_of = want.pop('?reach')
        n_pan = 0
        for pc, kind, out, _ in res:
            if kind == 'panic':
                n_pan += 1
                if not out.startswith(('Only the last field', 'Runtime-sized array', 'called `Option::unwrap()`')):
                    m = ctx.witness(pc)
                    vals = {k: model_value(m, v) for k, v in terms.items() if k in plan}
                    src2 = render(vals, H, hf32, hvec4, mj, space_of(m))
                    k2, r2, _ = ctx.gen_tokens(src2, opts) if src2 else ('?', None, None)
                    ctx.report('C08/panic', f'structs panics ({out}) for {vals}', {'wgsl': src2}, k2 == 'panic')
                continue
            sts, order = decode_structs(out.toks)
            conds = []
            for sname in STRUCTS:
                emitted = sname in sts
                conds.append((f'{sname}: emitted iff host-visible', want[sname] == z3.BoolVal(emitted)))
                if emitted:
                    conds.append((f'{sname}: emitted once', z3.BoolVal('duplicates' not in sts[sname])))
                    # the same closure decides the host-shareable role (encase is on in this harness): derive present iff reachable from a variable
                    if opts is opts_encase:
                        conds.append((f'{sname}: classified host-shareable iff reachable from a module-scope variable',
                                      reach_of[sname] == z3.BoolVal('encase::ShaderType' in sts[sname]['derives'])))
            extra = [n for n in order if n not in STRUCTS]
            conds.append(('no other struct item', z3.BoolVal(not extra)))
            m = ctx.check(pc, z3.Or([z3.Not(c_) for _, c_ in conds]))
            if m is None:
                continue
            failed = [n for n, c_ in conds if not z3.is_true(m.eval(c_, model_completion=True))]
            key = 'C08/' + failed[0].split(':')[-1].strip()
            seen[key] = seen.get(key, 0) + 1
            if seen[key] > 1:
                continue
            vals = {k: model_value(m, v) for k, v in terms.items()}
            rep, det = replay(ctx, vals, H, hf32, hvec4, mj, opts, {k: z3.is_true(m.eval(v, model_completion=True)) for k, v in want.items()}, space_of(m))
            inv = {v: k for k, v in H.items()}
            ctx.report(key, f'{failed[0]} for usage { {k: inv.get(v, v) for k, v in vals.items() if k in plan} }', det, rep, det)
        oks = [r for r in res if r[1] == 'ok']
        ctx.vacuity_witness('emission assertions reachable', oks[0][0])
        ctx.extra.setdefault('refusal_paths', 0)
        ctx.extra['refusal_paths'] += n_pan
        for r in oks[:: max(1, len(oks) // (3 if ctx.tier == 'quick' else 20))]:
            m = ctx.witness(r[0])
            vals = {k: model_value(m, v) for k, v in terms.items()}
            src2 = render(vals, H, hf32, hvec4, mj, space_of(m))
            if src2 is None:
                continue
            k2, toks2, _ = ctx.gen_tokens(src2, opts)
            if k2 != 'ok':
                continue
            real = sorted(n for n in decode_structs(toks2)[0] if n in STRUCTS)
            mine = sorted(n for n in decode_structs(r[2].toks)[0] if n in STRUCTS)
            if real != mine:
                raise Inconclusive(f'translator disagrees with the implementation: {real} vs {mine} on\n{src2}')
            ctx.replayed_ok += 1
            ctx.sample({'usage': {k: v for k, v in vals.items() if k in plan}, 'emitted': real})
    ctx.differential(SRC, opts_encase)
    ctx.extra['violations_by_rule'] = seen


def reference(terms, H, edges, n_types):
    """host-visible(S) over the hole variables"""
    B = z3.BoolVal
    member_of = [(H['S1'], terms['S1.m']), (H['S2'], terms['S2.m']), (H['S3'], terms['S3.m']), (H['S3'], terms['S3.m2'])]
    reach = {t: z3.Or([terms[g] == t for g in ('g0', 'g1', 'g2')]) for t in range(n_types)}
    for _ in range(10):       # longest chain: var -> S3 -> A2 -> S2 -> A1/R1 -> S1 -> A0/AA0 -> array -> S0 (8 hops; 6 rounds were too few)
        new = {}
        for t in range(n_types):
            srcs = [reach[t]]
            for a, bases in edges.items():
                if t in bases:
                    srcs.append(reach[a])
            for sh, mt in member_of:
                srcs.append(z3.And(reach[sh], mt == t))
            new[t] = z3.simplify(z3.Or(srcs))
        reach = new
    # f32 member `a` of every struct is irrelevant (not a struct)
    want = {}
    for s in STRUCTS:
        h = H[s]
        is_arg = z3.Or(terms['e0.arg'] == h, terms['e1.arg'] == h, terms['e0.arg2'] == h, terms['e1.arg2'] == h, z3.BoolVal(s == 'BI'))
        is_res = z3.Or(terms['e0.res'] == h, terms['e1.res'] == h)
        want[s] = z3.simplify(z3.Or(reach[h], z3.And(is_arg, z3.Not(is_res))))
    want['?reach'] = {s: reach[H[s]] for s in STRUCTS}
    return want


def spell(h, H, hf32, hvec4, mj):
    inv = {v: k for k, v in H.items()}
    if h == hf32:
        return 'f32'
    if h == hvec4:
        return 'vec4<f32>'
    return inv.get(h)


def render(vals, H, hf32, hvec4, mj, spaces_chosen=None):
    sp = lambda k: spell(vals[k], H, hf32, hvec4, mj)
    if any(sp(k) is None for k in vals):
        return None
    res = lambda k: (f'-> @builtin(position) {sp(k)}' if k == 'e0.res' else f'-> @location(0) {sp(k)}') if vals[k] == hvec4 else f'-> {sp(k)}'
    body = lambda k: 'return vec4<f32>(0.0);' if vals[k] == hvec4 else f'var o: {sp(k)}; return o;'
    spaces = ['private', 'workgroup', 'push_constant']
    gl = []
    rt_types = {H['R0'], H['R1']}
    memb = {H['S1']: [vals['S1.m']], H['S2']: [vals['S2.m']], H['S3']: [vals['S3.m'], vals['S3.m2']]}

    def has_rt(h, depth=0):
        return h in rt_types or (depth < 8 and any(has_rt(x, depth + 1) for x in memb.get(h, [])))
    for i in range(3):
        t = sp(f'g{i}')
        space = {'Private': 'private', 'WorkGroup': 'workgroup', 'PushConstant': 'push_constant', 'Uniform': 'uniform', 'Storage': 'storage'}[spaces_chosen[f'g{i}']] \
            if spaces_chosen else spaces[i]
        if has_rt(vals[f'g{i}']) or (spaces_chosen is None and vals[f'g{i}'] in [H[s] for s in ('S1', 'S2', 'S3')]) or space == 'storage':
            gl.append(f'@group(0) @binding({i}) var<storage, read> g{i}: {t};')     # a runtime array needs the storage address space
        elif space == 'uniform':
            gl.append(f'@group(0) @binding({i}) var<uniform> g{i}: {t};')
        else:
            gl.append(f'var<{space}> g{i}: {t};')
    return f'''struct S0 {{ @location(0) a: f32 }}
struct S1 {{ @location(0) a: f32, @location(1) m: {sp("S1.m")} }}
struct S2 {{ @location(0) a: f32, @location(1) m: {sp("S2.m")} }}
struct S3 {{ @location(0) a: f32, @location(1) m: {sp("S3.m")}, @location(2) m2: {sp("S3.m2")} }}
struct Unused {{ @location(0) a: f32 }}
struct P {{ @location(3) p: f32 }}
struct BI {{ @builtin(vertex_index) vi: u32, @builtin(instance_index) ii: u32 }}
alias A0 = array<S0, 2>;
alias A1 = array<S1, 2>;
alias A2 = array<S2, 2>;
alias R0 = array<S0>;
alias R1 = array<S1>;
alias AA0 = array<array<S0, 2>, 3>;
override TILE: u32 = 4u;
alias W1 = array<S1, TILE>;
{chr(10).join(gl)}
@vertex fn e0(a: {sp("e0.arg")}, @location(7) b: f32, c: {sp("e0.arg2")}, d: BI) {res("e0.res")} {{ {body("e0.res")} }}
@fragment fn e1(a: {sp("e1.arg")}, c: {sp("e1.arg2")}) {res("e1.res")} {{ {body("e1.res")} }}
'''


def replay(ctx, vals, H, hf32, hvec4, mj, opts, want, spaces_chosen=None):
    src = render(vals, H, hf32, hvec4, mj, spaces_chosen)
    if src is None:
        return False, {'note': 'no WGSL spelling'}
    kind, toks, _ = ctx.gen_tokens(src, opts)
    det = {'wgsl': src, 'expected_emitted': sorted(k for k, v in want.items() if v)}
    if kind != 'ok':
        det['real'] = f'{kind}: {str(toks)[:200]}'
        return False, det
    sts, order = decode_structs(toks)
    real = sorted(n for n in sts if n in STRUCTS)
    det['real'] = real
    dup = [n for n in real if 'duplicates' in sts[n]]
    return real != det['expected_emitted'] or bool(dup), det


def native(ctx):
    S = ctx.S
    d = S.dump(SRC)
    mj = d['module']
    H = {t['name']: i for i, t in enumerate(mj['types']) if t['name']}
    hf32 = next(i for i, t in enumerate(mj['types']) if t['inner'].get('Scalar') == {'kind': 'Float', 'width': 4})
    hvec4 = next(i for i, t in enumerate(mj['types']) if 'Vector' in t['inner'])
    edges = {i: [t['inner']['Array']['base']] for i, t in enumerate(mj['types']) if 'Array' in t['inner']}
    member_dom = {1: [hf32, H['S0'], H['A0'], H['R0'], H['AA0']], 2: [hf32, H['S0'], H['S1'], H['A1'], H['R1']], 3: [hf32, H['S1'], H['S2'], H['A2'], H['A0']]}
    gdom = [hf32, H['S0'], H['S1'], H['S2'], H['S3'], H['A0'], H['A2'], H['AA0'], H['R1']]
    n = 40 if ctx.tier == 'quick' else 400
    opts = dict(derive_encase_host_shareable=True)
    done = False
    for i in range(n):
        vals = {'g0': ctx.rng.choice(gdom), 'g1': ctx.rng.choice(gdom), 'g2': ctx.rng.choice([hf32, H['S0'], H['A0']]),
                'S1.m': ctx.rng.choice(member_dom[1]), 'S2.m': ctx.rng.choice(member_dom[2]), 'S3.m': ctx.rng.choice(member_dom[3]), 'S3.m2': ctx.rng.choice(member_dom[3]),
                'e0.arg': ctx.rng.choice([H['S0'], H['Unused']]), 'e1.arg': ctx.rng.choice([H['S0'], H['S1'], H['S3'], hvec4]),
                'e0.arg2': ctx.rng.choice([H['P'], H['S0'], H['Unused']]), 'e1.arg2': ctx.rng.choice([H['P'], H['S0'], H['S1'], H['S3']]),
                'e0.res': ctx.rng.choice([hvec4, H['S0']]), 'e1.res': ctx.rng.choice([hvec4, H['S0'], H['S1']])}
        # concrete reachability
        reach = {vals['g0'], vals['g1'], vals['g2']}
        memb = {H['S1']: [vals['S1.m']], H['S2']: [vals['S2.m']], H['S3']: [vals['S3.m'], vals['S3.m2']]}
        changed = True
        while changed:
            changed = False
            for t in list(reach):
                for nx in edges.get(t, []) + memb.get(t, []):
                    if nx not in reach:
                        reach.add(nx)
                        changed = True
        args = {vals['e0.arg'], vals['e1.arg'], vals['e0.arg2'], vals['e1.arg2'], H['BI']}
        ress = {vals['e0.res'], vals['e1.res']}
        want = {s_: (H[s_] in reach) or (H[s_] in args and H[s_] not in ress) for s_ in STRUCTS}
        rep, det = replay(ctx, vals, H, hf32, hvec4, mj, opts, want)
        if rep and not done:
            done = True
            ctx.report('C08/native', f'usage {vals}: emitted {det.get("real")}, host-visible {det.get("expected_emitted")}', det, True, det)
        elif not rep:
            ctx.replayed_ok += 1

if __name__ == '__main__':
    sys.exit(main('C08', run, native))
