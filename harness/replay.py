"""./check <id> --replay <file>: show a recorded counterexample again on the real build of /repo's current tree."""
import json


def find(d, key):
    if isinstance(d, dict):
        if key in d and d[key]:
            return d[key]
        for v in d.values():
            r = find(v, key)
            if r:
                return r
    if isinstance(d, list):
        for v in d:
            r = find(v, key)
            if r:
                return r
    return None


def replay(ctx, path):
    rec = json.load(open(path))
    print(f'property {rec.get("property")}  finding {rec.get("key")}')
    print(rec.get('what'))
    wgsl = find(rec, 'wgsl')
    opts = find(rec, 'options') or {}
    if isinstance(opts, list):
        opts = opts[0]
    if wgsl is None:
        print('(this finding carries no WGSL input; details follow)')
        print(json.dumps(rec.get('detail'), indent=1, default=str)[:4000])
        ctx.S.close()
        return 0
    print('---- input ----')
    print(wgsl)
    print('---- options ----', opts)
    r = ctx.S.oracle.gen(wgsl, opts if isinstance(opts, dict) else {})
    print('---- real create_shader_module_embedded ----')
    if 'ok' in r:
        print(r['ok'][:6000])
    else:
        print(r)
    print('---- recorded detail ----')
    print(json.dumps(rec.get('detail'), indent=1, default=str)[:3000])
    ctx.S.close()
    return 0
