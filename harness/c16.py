"""C16  Embedded shader source is byte-identical to the input.

(a) decided symbolically, for ALL strings: the source is an uninterpreted string term; in create_shader_module_inner the
    argument of the parser, the string literal token of SOURCE and (include variant) the literal inside include_str!
    must be that very term / the given path term; create_shader_module hands SOURCE to the device; embedded and include
    variants are token-identical apart from that one initialiser; the formatter flag does not touch tokens.
(b) the escaping law of the token layer (proc_macro2 / prettyplease / rustc) is NOT encoded: it is an assumption of the
    claim, exercised concretely each run on a corpus of nasty strings through the real build and syn's unescaping.
"""
import os
import shutil
import tempfile
import z3
from harness.common import *
from mirsym.oracle import Oracle

FIXTURE = '/repo/wgsl_to_wgpu/src/data/fragment_simple.wgsl'

NASTY = [
    '// "quoted" \\ backslash {braces} \\n \\" \\\\\n',
    '\n\n  \t// leading and trailing whitespace\n\n  ',
    '// CRLF line\r\n// next\r\n',
    '// U+2028   U+2029   NEL \u0085 BOM ﻿\n',
    '// non-BMP \U0001F600 \U00010348 combining é\n',
    '// control \x01\x07\x1b\x7f tab\t\n',
    '// r#"raw"# \'single\' `backtick` ${x} {{}} %s\n',
    '/* block\n   comment */\n',
    # long, space- and tab-indented, several lines: a literal far wider than a formatter's line limit
    'fn helper(x: f32) -> f32 {\n    var s = 0.0;\n    for (var i = 0; i < 4; i++) {\n        s += x;   // trailing   spaces   \n\t\ts = s * 2.0;\n    }\n    return s;\n}\n'
    + '    // indented comment ' + 'z' * 120 + '\n',
]


def run(ctx):
    S, c = ctx.S, ctx.S.conv
    base = open(FIXTURE).read()
    module = S.module(base)
    SRC = SymStr([('sym', 'SOURCE_TEXT')])
    PATH = SymStr([('sym', 'INCLUDE_PATH')])
    has_path = z3.Bool('include_variant')
    rustfmt = z3.Bool('options_rustfmt')
    ctx.stubs = ['naga::front::wgsl::parse_str (returns the IR of a fixture for whatever string it is given; the string is recorded)',
                 'syn::parse_file / prettyplease::unparse / rustfmt spawn (pass the token string through)']
    ctx.assumptions += ['escaping law: the token layer renders a string literal token back to the same string (proc_macro2 Literal::string, prettyplease/'
                        'rustfmt, rustc unescaping) - NOT decided by any engine here; exercised concretely on a corpus each run',
                        'text-altering string operations (trim, replace, case mapping ...) are modelled as returning a fresh unknown string']
    ctx.bounds = {'source / include path': 'uninterpreted strings, no length bound', 'variants': 'embedded and include (symbolic), rustfmt flag symbolic'}
    log = {}

    def parse_str(it, s):
        log.setdefault('parse_args', []).append(s)
        return ok(module)
    env = {'parse_str': parse_str, 'validate': lambda it, v, m: ok(Opaque('ModuleInfo')),
           'spawn': lambda it, cmd: err(Opaque('io::Error'))}
    runs = []

    def go(it):
        log.clear()
        # the two PUBLIC functions (whatever they share internally): the include path is an uninterpreted string, possibly empty
        if it.truth(has_path):
            out = it.call('create_shader_module', [SRC, PATH, write_options(S.conv, rustfmt=rustfmt)])
        else:
            out = it.call('create_shader_module_embedded', [SRC, write_options(S.conv, rustfmt=rustfmt)])
        runs.append(dict(log))
        return out
    res = ctx.explore('create_shader_module + create_shader_module_embedded/uninterpreted-source', go, env=env, anchors=['create_shader_module_inner'])
    by = {}
    for (pc, kind, out, _), lg in zip(res, runs):
        m = ctx.witness(pc)
        variant = (model_value(m, has_path), model_value(m, rustfmt))
        ctx.queries['discharged'] += 1
        problems = []
        if kind == 'panic' or out.disc != 0:
            problems.append(f'generation fails: {kind} {out}')
        elif not hasattr(out.fields[0], 'toks'):
            problems.append(f'the generated text went through a text-altering string operation ({out.fields[0]!r}): the SOURCE literal can no longer be shown to be the input')
        else:
            toks = out.fields[0].toks
            its = T.items(toks)
            srcs = T.find_items(its, 'const', 'SOURCE')
            if len(srcs) != 1:
                problems.append('SOURCE constant missing')
            else:
                ty, val = T.const_parts(srcs[0])
                if T.text(ty) != '& str' or not srcs[0].vis:
                    problems.append('SOURCE is not `pub const SOURCE: &str`')
                if variant[0]:
                    okv = (len(val) == 3 and T.is_i(val[0], 'include_str') and T.is_p(val[1], '!') and T.is_g(val[2], '()')
                           and len(val[2].v[1]) == 1 and val[2].v[1][0].k == 'lit' and val[2].v[1][0].v == ('string', PATH))
                    if not okv:
                        problems.append(f'include variant: SOURCE = {T.text(val)} is not include_str!(<the given path>)')
                else:
                    if not (len(val) == 1 and val[0].k == 'lit' and val[0].v == ('string', SRC)):
                        problems.append(f'embedded variant: SOURCE = {T.text(val)} is not a literal of the input string itself')
            if lg.get('parse_args') != [SRC]:
                problems.append(f'the parser was handed {lg.get("parse_args")} instead of the input string')
            f = T.find_items(its, 'fn', 'create_shader_module')
            want = ('let source = std :: borrow :: Cow :: Borrowed (SOURCE) ; device . create_shader_module (wgpu :: ShaderModuleDescriptor '
                    '{label : None , source : wgpu :: ShaderSource :: Wgsl (source)})')
            if len(f) != 1 or T.text(T.fn_parts(f[0])[3]) != want:
                problems.append('create_shader_module does not hand SOURCE to the device')
            rest = [T.canon(x.toks) for x in its if not (x.kind == 'const' and x.name == 'SOURCE')]
            by[variant] = rest
        if problems:
            ctx.queries['sat'] += 1
            rep, det = native_corpus(ctx, base, only_first_failure=True)
            ctx.report('C16/pass-through', '; '.join(problems) + f' (include={variant[0]}, rustfmt={variant[1]})', det, rep, det)
        else:
            ctx.queries['unsat'] += 1
    if len(by) == 4:
        ref = by[(False, False)]
        for v, rest in by.items():
            ctx.queries['discharged'] += 1
            if rest != ref:
                ctx.queries['sat'] += 1
                rep, det = native_variants(ctx, base)
                ctx.report('C16/variants-differ', f'variant include={v[0]} rustfmt={v[1]} differs from the embedded variant outside SOURCE', det, rep, det)
            else:
                ctx.queries['unsat'] += 1
    elif not ctx.violations and not ctx.inconclusive:
        raise Inconclusive(f'expected 4 variants, explored {sorted(by)}')
    ctx.vacuity_witness('pass-through assertions reachable', res[0][0])
    # (b) concrete corpus through the real build: SOURCE literal evaluates (syn / rustc unescaping) to the input
    rep, det = native_corpus(ctx, base)
    if rep:
        ctx.report('C16/escaping', f'embedded source does not round-trip: {det.get("first")}', det, True, det)
    rep, det = native_variants(ctx, base)
    if rep:
        ctx.report('C16/variants-differ', 'include and embedded variants differ outside SOURCE on the real build', det, True, det)


def source_value(ctx, text):
    lx = ctx.S.oracle.lex(text)
    toks = T.from_json(lx['tokens'])
    srcs = T.find_items(T.items(toks), 'const', 'SOURCE')
    ty, val = T.const_parts(srcs[0])
    # `concat!("..", "..")` of string literals evaluates to their concatenation: the property is about the VALUE of SOURCE
    if len(val) == 3 and T.is_i(val[0], 'concat') and T.is_p(val[1], '!') and val[2].k == 'group':
        parts = T.split_commas(val[2].v[1])
        if all(len(p_) == 1 and p_[0].k == 'lit' and p_[0].v[0] == 'string' and isinstance(p_[0].v[1], str) for p_ in parts):
            val = [Tok('lit', ('string', ''.join(p_[0].v[1] for p_ in parts)))]
    return val, toks


def long_sources(base):
    """sources of 5-20 KB whose multi-byte characters fall on every byte alignment (for code that treats long text in pieces)"""
    out = []
    for ch in ('\u00e9', '\u20ac', '\U0001F600', 'a\u00e9'):
        for pad in range(4):
            out.append('//' + 'x' * pad + ch * 3000 + '\n' + base)
            out.append(base + '//' + 'y' * pad + ch * 6000 + '\n')
    return out


def native_corpus(ctx, base, only_first_failure=False):
    det = {'checked': 0}
    bad = None
    for src in long_sources(base):
        for fmt in (False,):
            r = ctx.S.oracle.gen(src, {'rustfmt': fmt})
            if 'ok' not in r:
                continue
            val, _ = source_value(ctx, r['ok'])
            det['checked'] += 1
            good = len(val) == 1 and val[0].k == 'lit' and val[0].v == ('string', src)
            if good:
                ctx.replayed_ok += 1
            elif bad is None:
                got = val[0].v[1] if (len(val) == 1 and val[0].k == 'lit') else T.text(val)[:80]
                diff_at = next((i for i, (x, y) in enumerate(zip(got, src)) if x != y), min(len(got), len(src))) if isinstance(got, str) else None
                bad = {'wgsl_head': src[:60], 'source_bytes': len(src.encode()), 'first_difference_at_char': diff_at, 'wgsl': src}
    for i, extra in enumerate(NASTY):
        for src in (extra + base, base + extra, base.replace('\n', '\n' + extra, 1)):
            for fmt in (False, True):
                r = ctx.S.oracle.gen(src, {'rustfmt': fmt})
                if 'ok' not in r:
                    continue          # the front end rejects this text: outside the input space
                val, _ = source_value(ctx, r['ok'])
                det['checked'] += 1
                good = len(val) == 1 and val[0].k == 'lit' and val[0].v == ('string', src)
                if good:
                    ctx.replayed_ok += 1
                elif bad is None:
                    bad = {'wgsl': src, 'rustfmt': fmt, 'source_constant': T.text(val)[:200]}
    # formatter requested but absent (the fallback path of pretty_print_rustfmt): PATH holds no rustfmt
    d = tempfile.mkdtemp(prefix='nofmt', dir=os.path.join(VERIF, '.cache'))
    try:
        o = Oracle(env={'PATH': d})
        for extra in NASTY + ['// a; b { c } d ;  {  }  ;\n', 'fn helper(x: f32) -> f32 { var s = 0.0; for (var i = 0; i < 4; i++) { s += x; } return s; }\n']:
            src = extra + base
            r = o.gen(src, {'rustfmt': True})
            if 'ok' not in r:
                continue
            val, _ = source_value(ctx, r['ok'])
            det['checked'] += 1
            if len(val) == 1 and val[0].k == 'lit' and val[0].v == ('string', src):
                ctx.replayed_ok += 1
            elif bad is None:
                bad = {'wgsl': src, 'rustfmt': 'requested, not on PATH', 'source_constant': T.text(val)[:200]}
        o.close()
    finally:
        shutil.rmtree(d, ignore_errors=True)
    for path in ['', ' ', 'shader.wgsl', 'dir with space/sh"ad\\er.wgsl', 'ünï/\U0001F600.wgsl', '../x\ty.wgsl']:
        r = ctx.S.oracle.gen(base, {}, include=path)
        if 'ok' in r:
            val, _ = source_value(ctx, r['ok'])
            det['checked'] += 1
            good = (len(val) == 3 and T.is_i(val[0], 'include_str') and T.is_g(val[2], '()') and len(val[2].v[1]) == 1
                    and val[2].v[1][0].v == ('string', path))
            if good:
                ctx.replayed_ok += 1
            elif bad is None:
                bad = {'include_path': path, 'source_constant': T.text(val)[:200]}
    det['first'] = bad
    ctx.sample({'corpus strings checked natively': det['checked']})
    return bad is not None, det


def native_variants(ctx, base):
    r1 = ctx.S.oracle.gen(base, {})
    r2 = ctx.S.oracle.gen(base, {}, include='p.wgsl')
    if 'ok' not in r1 or 'ok' not in r2:
        return True, {'real': 'a variant failed to generate'}
    _, t1 = source_value(ctx, r1['ok'])
    _, t2 = source_value(ctx, r2['ok'])
    rest = lambda toks: [T.canon(x.toks) for x in T.items(toks) if not (x.kind == 'const' and x.name == 'SOURCE')]
    return rest(t1) != rest(t2), {'wgsl': base}


def native(ctx):
    base = open(FIXTURE).read()
    rep, det = native_corpus(ctx, base)
    if rep:
        ctx.report('C16/escaping', f'embedded source does not round-trip: { {k: v for k, v in (det.get("first") or {}).items() if k != "wgsl"} }', det, True, det)
    rep, det = native_variants(ctx, base)
    if rep:
        ctx.report('C16/variants-differ', 'include and embedded variants differ outside SOURCE on the real build', det, True, det)


if __name__ == '__main__':
    sys.exit(main('C16', run, native))
