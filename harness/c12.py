"""C12  Override constants reach the pipeline under the right key and value.

Real code executed symbolically: pipeline_overridable_constants (+ closures), override_key, and the overrides plumbing of
vertex_states / fragment_states (through create_shader_module_inner).
Symbolic: for each of 3 overrides its scalar type (bool / i32 / u32 / f32), whether it has a default, whether it has an
@id and the id (all of u16).  The value conversion is a separate z3 lemma in the FP theory against a transcription of
naga's map_value_to_literal (back/pipeline_constants.rs:919-975).
"""
import z3
from harness.common import *
from harness.decoders import decode_entry_items, struct_lit

NAMES = ['alphaBeta', 'MAX_lights2', 'gamma_Ö']      # mixed case, digits, non-ASCII: the key is the declared name, character for character
TYPES = ['bool', 'i32', 'u32', 'f32', 'ABool', 'AI32', 'AU32', 'AF32']     # the A* are WGSL aliases: same scalar, but a NAMED type in naga's arena
BASE = {'ABool': 'bool', 'AI32': 'i32', 'AU32': 'u32', 'AF32': 'f32'}


def render(vals=None):
    vals = vals or [('bool', True, 0), ('f32', False, None), ('i32', True, 35)]
    out = ['alias ABool = bool; alias AI32 = i32; alias AU32 = u32; alias AF32 = f32;',
           'var<private> keep_bool: bool; var<private> keep_i32: i32; var<private> keep_u32: u32; var<private> keep_f32: f32;',
           'var<private> keepa_bool: ABool; var<private> keepa_i32: AI32; var<private> keepa_u32: AU32; var<private> keepa_f32: AF32;']
    dflt = {'bool': 'true', 'i32': '1', 'u32': '1u', 'f32': '1.0'}
    dflt.update({a: dflt[b] for a, b in BASE.items()})
    for n, (ty, has_init, oid) in zip(NAMES, vals):
        a = f'@id({oid}) ' if oid is not None else ''
        out.append(f'{a}override {n}: {ty}{" = " + dflt[ty] if has_init else ""};')
    # the overrides are READ: the fragment entry reads the first two directly, the vertex entry reaches the third through a helper
    # (whatever a stage reads, every entry helper must hand the caller's whole map to the pipeline)
    out.append(f'fn reads_third() {{ let u2 = {NAMES[2]}; }}')
    out.append('@vertex fn vs() -> @builtin(position) vec4<f32> { reads_third(); return vec4<f32>(0.0); }')
    out.append(f'@fragment fn fs() {{ let u0 = {NAMES[0]}; let u1 = {NAMES[1]}; }}')
    return '\n'.join(out) + '\n'


def decode_overrides(toks):
    its = T.items(toks)
    st = T.find_items(its, 'struct', 'OverrideConstants')
    im = [x for x in T.find_items(its, 'impl') if x.name == 'OverrideConstants']
    if not st and not im:
        return None
    if len(st) != 1 or len(im) != 1:
        raise T.DecodeError('OverrideConstants items')
    fields = [(n, T.text(v)) for n, _, v in T.struct_fields(T.body_of(st[0]))]
    fns = T.items(T.body_of(im[0]))
    cf = T.find_items(fns, 'fn', 'constants')
    if len(cf) != 1:
        raise T.DecodeError('constants()')
    gen, params, ret, body = T.fn_parts(cf[0])
    if T.text(params) != '& self' or T.text(ret) != 'std :: collections :: HashMap < String , f64 >':
        raise T.DecodeError('constants signature: ' + T.text(params) + ' -> ' + T.text(ret))
    # let [mut] entries = std::collections::HashMap::from([ (k.to_owned(), v), ... ]);
    i = 0
    if not T.is_i(body[0], 'let'):
        raise T.DecodeError('constants body: ' + T.text(body))
    mut = T.is_i(body[1], 'mut')
    i = 2 if mut else 1
    if not (T.is_i(body[i], 'entries') and T.is_p(body[i + 1], '=')):
        raise T.DecodeError('constants body: ' + T.text(body))
    j = next(k for k in range(i, len(body)) if T.is_p(body[k], ';'))
    init = body[i + 2:j]
    if T.text(init[:-1]) != 'std :: collections :: HashMap :: from' or not T.is_g(init[-1], '()'):
        raise T.DecodeError('entries initialiser: ' + T.text(init))
    arr = init[-1].v[1]
    if len(arr) != 1 or not T.is_g(arr[0], '[]'):
        raise T.DecodeError('entries initialiser: ' + T.text(init))
    required = []
    for tup_ in T.split_commas(arr[0].v[1]):
        if len(tup_) != 1 or not T.is_g(tup_[0], '()'):
            raise T.DecodeError('tuple: ' + T.text(tup_))
        k, v = T.split_commas(tup_[0].v[1])
        required.append((key_of(k), v))
    rest = body[j + 1:]
    optional = []
    while rest and T.is_i(rest[0], 'if'):
        # if let Some(value) = self.NAME { entries.insert(KEY.to_owned(), VALUE); }
        g = next(k for k, t in enumerate(rest) if T.is_g(t, '{}'))
        head = rest[:g]
        if T.text(head[:-1]) != 'if let Some (value) = self .' or head[-1].k != 'ident':
            raise T.DecodeError('optional entry head: ' + T.text(head))
        name = head[-1].v
        blk = rest[g].v[1]
        if T.text(blk[:3]) != 'entries . insert' or not T.is_g(blk[3], '()') or not (len(blk) == 5 and T.is_p(blk[4], ';')):
            raise T.DecodeError('optional entry body: ' + T.text(blk))
        k, v = T.split_commas(blk[3].v[1])
        optional.append((name, key_of(k), v))
        rest = rest[g + 1:]
        while rest and T.is_p(rest[0], ';'):
            rest = rest[1:]
    if T.text(rest) != 'entries':
        raise T.DecodeError('constants tail: ' + T.text(rest))
    return {'fields': fields, 'mut': mut, 'required': required, 'optional': optional}


def key_of(toks):
    if not (len(toks) == 4 and toks[0].k == 'lit' and toks[0].v[0] == 'string' and T.text(toks[1:3]) == '. to_owned' and T.is_g(toks[3], '()')):
        raise T.DecodeError('key expression: ' + T.text(toks))
    return toks[0].v[1]


def value_form(toks, var):
    """'cast' for `<var> as f64`, 'bool' for `if <var> { 1.0 } else { 0.0 }`"""
    t = T.text(toks)
    if t == f'{var} as f64':
        return 'cast'
    if t == f'if {var} {{1.0}} else {{0.0}}':
        return 'bool'
    return 'other:' + t


def lemma(ctx):
    """for every field value v of type T: naga's map_value_to_literal(V(v), T) = v, where V is the emitted conversion"""
    RNE, RTZ = z3.RNE(), z3.RTZ()
    F64, F32 = z3.Float64(), z3.Float32()
    res = {}
    x = z3.BitVec('v', 32)
    # i32:  v as f64 ; trunc ; range check ; as i32
    d = z3.fpSignedToFP(RNE, x, F64)
    t = z3.fpRoundToIntegral(RTZ, d)
    in_range = z3.And(z3.fpGEQ(t, z3.FPVal(-2147483648.0, F64)), z3.fpLEQ(t, z3.FPVal(2147483647.0, F64)), z3.Not(z3.fpIsNaN(d)), z3.Not(z3.fpIsInf(d)))
    res['i32'] = ctx.check([], z3.Not(z3.And(in_range, z3.fpToSBV(RTZ, t, z3.BitVecSort(32)) == x)))
    d = z3.fpUnsignedToFP(RNE, x, F64)
    t = z3.fpRoundToIntegral(RTZ, d)
    in_range = z3.And(z3.fpGEQ(t, z3.FPVal(0.0, F64)), z3.fpLEQ(t, z3.FPVal(4294967295.0, F64)))
    res['u32'] = ctx.check([], z3.Not(z3.And(in_range, z3.fpToUBV(RTZ, t, z3.BitVecSort(32)) == x)))
    f = z3.FP('f', F32)
    d = z3.fpFPToFP(RNE, f, F64)
    back = z3.fpFPToFP(RNE, d, F32)
    finite = z3.And(z3.Not(z3.fpIsNaN(f)), z3.Not(z3.fpIsInf(f)))
    res['f32'] = ctx.check([finite], z3.Not(z3.And(z3.Not(z3.fpIsNaN(d)), z3.Not(z3.fpIsInf(d)), z3.fpToIEEEBV(back) == z3.fpToIEEEBV(f))))
    b = z3.Bool('b')
    d = z3.If(b, z3.FPVal(1.0, F64), z3.FPVal(0.0, F64))
    res['bool'] = ctx.check([], z3.Not(z3.And(z3.Not(z3.fpEQ(d, z3.FPVal(0.0, F64))), z3.Not(z3.fpIsNaN(d))) == b))
    # and the wrong pairing must be refuted (vacuity of the lemma): bool through a cast is not expressible, i32 cast read as u32 fails
    d = z3.fpSignedToFP(RNE, x, F64)
    t = z3.fpRoundToIntegral(RTZ, d)
    neg = ctx.check([], z3.Not(z3.And(z3.fpGEQ(t, z3.FPVal(0.0, F64)), z3.fpToUBV(RTZ, t, z3.BitVecSort(32)) == x)))
    if neg is None:
        raise Inconclusive('numeric lemma is vacuous (a wrong conversion was not refuted)')
    return res


def run(ctx):
    S, c = ctx.S, ctx.S.conv
    src = render()
    d = S.dump(src)
    module = c.module(d)
    mj = d['module']
    ty_h = {}
    for i, t in enumerate(mj['types']):
        sc = t['inner'].get('Scalar')
        if sc:
            ty_h[t['name'] or {('Bool', 1): 'bool', ('Sint', 4): 'i32', ('Uint', 4): 'u32', ('Float', 4): 'f32'}[(sc['kind'], sc['width'])]] = i
    ovs = c.get(module, 'overrides').fields[0].items
    holes = []
    assume = []
    for i, o in enumerate(ovs):
        ty = z3.BitVec(f'type{i}', 32)
        has_init = z3.Bool(f'has_default{i}')
        has_id = z3.Bool(f'has_id{i}')
        oid = z3.BitVec(f'id{i}', 16)
        c.set(o, 'ty', ty)
        c.set(o, 'init', Agg('Option', {'Some': [i], 'None': []}, disc=z3.If(has_init, z3.BitVecVal(1, 64), z3.BitVecVal(0, 64))))
        c.set(o, 'id', Agg('Option', {'Some': [oid], 'None': []}, disc=z3.If(has_id, z3.BitVecVal(1, 64), z3.BitVecVal(0, 64))))
        assume.append(z3.Or([ty == ty_h[t] for t in TYPES]))
        holes.append((ty, has_init, has_id, oid))
    ctx.bounds = {'overrides': len(NAMES), 'type': TYPES + ['(A* = the same scalars through a WGSL alias)'], 'id': 'all of u16, presence symbolic', 'default': 'presence symbolic'}
    ctx.assumptions += ['override names are concrete and distinct; defaults that depend on other overrides are just "has a default" for the generator',
                        'key rule = naga back/pipeline_constants.rs process_override: decimal @id if present, else the name',
                        'value lemma: decoded conversion applied to ANY field value, then naga map_value_to_literal, gives back the value '
                        '(z3 FP theory; f32 fields finite - naga rejects non-finite values by contract)']
    env = env_passthrough(module, src)
    default = [('bool', True, 0), ('f32', False, None), ('i32', True, 35)]
    inv_t = {v: k for k, v in ty_h.items()}

    def pin(i):
        t, hi, oid = default[i]
        ty, has_init, has_id, o = holes[i]
        return [ty == ty_h[t], has_init == z3.BoolVal(hi), has_id == z3.BoolVal(oid is not None), o == (oid or 0)]
    plans = [[0], [1], [2]] if ctx.tier == 'quick' else [[0, 1], [1, 2], [0, 2]]
    res = []
    for plan in plans:
        extra = [c_ for i in range(3) if i not in plan for c_ in pin(i)]
        res += ctx.explore(f'create_shader_module_inner/overrides-symbolic-{plan}',
                           lambda it: it.call('create_shader_module_inner', [src, none(), write_options(S.conv)]),
                           assume=assume + extra, env=env,
                           anchors=['pipeline_overridable_constants', 'override_key', 'vertex_states', 'fragment_states'], timeout_s=3000)
    # default presence of all three symbolic at once (the `let mut` rule and the required/optional split)
    extra = [c_ for i in range(3) for c_ in (pin(i)[0], pin(i)[2], pin(i)[3])]
    res += ctx.explore('create_shader_module_inner/overrides-defaults', lambda it: it.call('create_shader_module_inner', [src, none(), write_options(S.conv)]),
                       assume=assume + extra, env=env, anchors=['pipeline_overridable_constants'])
    lem = lemma(ctx)
    for t, m in lem.items():
        if m is not None:
            ctx.report(f'C12/lemma/{t}', f'conversion of {t} through f64 and naga\'s map_value_to_literal is not the identity: {m}', {}, False)
    seen = {}
    for pc, kind, out, _ in res:
        if kind == 'panic' or out.disc != 0:
            m = ctx.witness(pc)
            v = vals_of(holes, ty_h, m)
            k2, r2, _ = ctx.gen_tokens(render(v), {})
            ctx.report('C12/not-ok', f'generation fails ({kind}: {out}) for overrides {v}', {'wgsl': render(v)}, k2 != 'ok')
            continue
        toks = out.fields[0].toks
        conds = conditions(decode_overrides(toks), decode_entry_items(toks), holes, ty_h)
        m = ctx.check(pc, z3.Or([z3.Not(c_) for _, c_ in conds]))
        if m is None:
            continue
        failed = [n for n, c_ in conds if not z3.is_true(m.eval(c_, model_completion=True))]
        key = 'C12/' + failed[0].split(':')[0]
        seen[key] = seen.get(key, 0) + 1
        if seen[key] > 1:
            continue
        v = vals_of(holes, ty_h, m)
        rep, det = replay(ctx, v)
        ctx.report(key, f'{failed[0]} for overrides {v}', det, rep, det)
    oks = [r for r in res if r[1] == 'ok']
    ctx.vacuity_witness('override assertions reachable', oks[0][0])
    ctx.differential(src, {})
    for r in oks[:: max(1, len(oks) // (4 if ctx.tier == 'quick' else 40))]:
        v = vals_of(holes, ty_h, ctx.witness(r[0]))
        ctx.differential(render(v), {})
        ctx.sample({'overrides(type, has_default, id)': v})
    # a module without overrides: no struct, helpers take no overrides parameter
    src0 = '@vertex fn vs() -> @builtin(position) vec4<f32> { return vec4<f32>(0.0); }\n@fragment fn fs() {}\n'
    m0 = S.module(src0)
    r0 = ctx.explore('create_shader_module_inner/no-overrides', lambda it: it.call('create_shader_module_inner', [src0, none(), write_options(S.conv)]),
                     env=env_passthrough(m0, src0), anchors=['pipeline_overridable_constants'])
    t0 = r0[0][2].fields[0].toks
    e0 = decode_entry_items(t0)
    ctx.queries['discharged'] += 1
    good = decode_overrides(t0) is None and e0['vertex']['vs_entry']['fields'].get('constants') == 'Default :: default ()' \
        and e0['vertex']['vs_entry']['params'] == [] and not e0['fragment']['fs_entry']['overrides_param']
    if good:
        ctx.queries['unsat'] += 1
    else:
        ctx.queries['sat'] += 1
        k2, t2, _ = ctx.gen_tokens(src0, {})
        ctx.report('C12/no-overrides', 'a module without overrides still refers to OverrideConstants', {'wgsl': src0},
                   decode_overrides(t2) is not None)
    # a compute-only module with overrides still gets the struct and the map
    src_c = 'override n: u32;\n@id(7) override flag: bool;\noverride gain: f32 = 2.0;\n@compute @workgroup_size(1) fn cs() { var x = f32(n) * gain; if (flag) { x = 0.0; } }\n'
    mc = S.module(src_c)
    rc = ctx.explore('create_shader_module_inner/compute-only-with-overrides', lambda it: it.call('create_shader_module_inner', [src_c, none(), write_options(S.conv)]),
                     env=env_passthrough(mc, src_c))
    ctx.queries['discharged'] += 1
    ovc = decode_overrides(rc[0][2].fields[0].toks) if rc[0][1] == 'ok' and rc[0][2].disc == 0 else None
    goodc = (ovc is not None and [f[0] for f in ovc['fields']] == ['n', 'flag', 'gain'] and sorted(k for k, _ in ovc['required']) == ['7', 'n']
             and [(n_, k) for n_, k, _ in ovc['optional']] == [('gain', 'gain')])
    if goodc:
        ctx.queries['unsat'] += 1
    else:
        ctx.queries['sat'] += 1
        k2, t2, _ = ctx.gen_tokens(src_c, {})
        real = decode_overrides(t2) if k2 == 'ok' else None
        ctx.report('C12/compute-only', f'compute-only module with overrides: decoded {ovc and ovc["fields"]}', {'wgsl': src_c}, real is None or [f[0] for f in real['fields']] != ['n', 'flag', 'gain'])
    rep, det = native_shared_default(ctx)      # (the symbolic skeleton gives every default its own expression handle; this shape is concrete)
    if rep:
        ctx.report('C12/native-shared-default', f'overrides sharing one default expression: optional entries {det.get("real")}, expected {det.get("expected")}', det, True, det)
    else:
        ctx.replayed_ok += 1
    ctx.extra['violations_by_rule'] = seen
    ctx.extra['numeric_lemma'] = {k: ('holds (unsat)' if v is None else 'FAILS') for k, v in lem.items()}


def conditions(ov, en, holes, ty_h):
    B = z3.BoolVal
    conds = []
    if ov is None:
        return [('struct: OverrideConstants missing', B(False))]
    conds.append(('struct: one field per override in order', B([f[0] for f in ov['fields']] == NAMES)))
    any_opt = z3.Or([h[1] for h in holes])
    conds.append(('map: `let mut` iff something is optional', any_opt == B(ov['mut'])))
    rust = {'bool': 'bool', 'i32': 'i32', 'u32': 'u32', 'f32': 'f32'}
    rust.update({a: rust[b] for a, b in BASE.items()})
    for i, (name, (ty, has_init, has_id, oid)) in enumerate(zip(NAMES, holes)):
        fty = dict(ov['fields']).get(name, '')
        per_t = []
        for t in TYPES:
            per_t.append(z3.Implies(ty == ty_h[t], z3.If(has_init, B(fty == f'Option < {rust[t]} >'), B(fty == rust[t]))))
        conds.append((f'struct: field {name} has the scalar type, Option iff default', z3.And(per_t)))
        req = [(k, v) for k, v in ov['required'] if T.text(v).startswith(f'self . {name} ') or f'self . {name} ' in T.text(v)]
        opt = [(k, v) for n, k, v in ov['optional'] if n == name]
        conds.append((f'map: {name} inserted once, unconditionally iff required', z3.If(has_init, B(len(opt) == 1 and len(req) == 0), B(len(req) == 1 and len(opt) == 0))))
        for (k, v), var in [(x, f'self . {name}') for x in req] + [(x, 'value') for x in opt]:
            # key
            if isinstance(k, SymStr) and len(k.parts) == 1 and k.parts[0][0] == 'dec':
                conds.append((f'key: {name} keyed by its decimal @id', z3.And(has_id, z3.ZeroExt(48, oid) == z3.ZeroExt(64 - k.parts[0][1].size(), k.parts[0][1]) if k.parts[0][1].size() < 64 else k.parts[0][1])))
            elif isinstance(k, str):
                isnum = k.isdigit()
                conds.append((f'key: {name} keyed by name when there is no @id', z3.If(has_id, B(isnum) if False else z3.And(B(isnum), z3.ZeroExt(48, oid) == (int(k) if isnum else 0)), B(k == name))))
            else:
                conds.append((f'key: {name} has an undecodable key {k!r}', B(False)))
            form = value_form(v, var)
            conds.append((f'value: {name} converted according to its type', z3.And([z3.Implies(ty == ty_h[t], B(form == ('bool' if BASE.get(t, t) == 'bool' else 'cast'))) for t in TYPES])))
    for nm, sec in (('vs_entry', 'vertex'), ('fs_entry', 'fragment')):
        e = en[sec].get(nm)
        if e is None:
            conds.append((f'entry: {nm} missing', B(False)))
            continue
        if sec == 'vertex':
            okp = e['params'] == [('overrides', '& OverrideConstants')]
        else:
            okp = e['overrides_param'] and e['n_params'] == 2
        conds.append((f'entry: {nm} takes &OverrideConstants and passes constants() through', B(okp and e['fields'].get('constants') == 'overrides . constants ()')))
    return conds


def vals_of(holes, ty_h, m):
    inv = {v: k for k, v in ty_h.items()}
    return [(inv[model_value(m, ty)], model_value(m, hi), model_value(m, oid) if model_value(m, hid) else None) for ty, hi, hid, oid in holes]


def replay(ctx, v):
    """native: evaluate the same conditions on the real output for the concrete override set"""
    src = render(v)
    kind, toks, _ = ctx.gen_tokens(src, {})
    det = {'wgsl': src}
    if kind != 'ok':
        det['real'] = f'{kind}: {toks}'
        return True, det
    try:
        ov, en = decode_overrides(toks), decode_entry_items(toks)
    except T.DecodeError as e:
        det['real'] = f'does not decode: {e}'
        return True, det
    # concrete holes
    ty_c = {t: i for i, t in enumerate(TYPES)}
    holes = [(z3.BitVecVal(ty_c[t], 32), z3.BoolVal(hi), z3.BoolVal(oid is not None), z3.BitVecVal(oid or 0, 16)) for t, hi, oid in v]
    conds = conditions(ov, en, holes, ty_c)
    failed = [n for n, c_ in conds if not z3.is_true(z3.simplify(c_))]
    det['failed'] = failed
    det['real'] = {'fields': ov['fields'] if ov else None, 'required': [(k, T.text(x)) for k, x in ov['required']] if ov else None,
                   'optional': [(n, k, T.text(x)) for n, k, x in ov['optional']] if ov else None}
    return bool(failed), det


SHARED_DEFAULT = ('const DEFAULT_TILE: u32 = 8u;\noverride tile_x: u32 = DEFAULT_TILE;\noverride tile_y: u32 = DEFAULT_TILE;\noverride tile_z: u32 = 8u;\n'
                  '@vertex fn vs() -> @builtin(position) vec4<f32> { return vec4<f32>(f32(tile_x + tile_y + tile_z)); }\n@fragment fn fs() {}\n')


def native_shared_default(ctx):
    """overrides whose defaults are the SAME constant expression (one initialiser handle in naga) are still separate entries of the map"""
    kind, toks, _ = ctx.gen_tokens(SHARED_DEFAULT, {})
    if kind != 'ok':
        return False, {'real': f'{kind}: {toks}'}
    ov = decode_overrides(toks)
    got = [(n, k) for n, k, _ in ov['optional']] if ov else None
    want = [('tile_x', 'tile_x'), ('tile_y', 'tile_y'), ('tile_z', 'tile_z')]
    return got != want, {'wgsl': SHARED_DEFAULT, 'real': got, 'expected': want}


def native(ctx):
    rep, det = native_shared_default(ctx)
    if rep:
        ctx.report('C12/native-shared-default', f'overrides sharing one default expression: optional entries {det.get("real")}, expected {det.get("expected")}', det, True, det)
    else:
        ctx.replayed_ok += 1
    n = 40 if ctx.tier == 'quick' else 400
    done = False
    for i in range(n):
        ids = ctx.rng.sample([0, 1, 7, 35, 1200, 65535], 3)
        v = [(ctx.rng.choice(TYPES), ctx.rng.random() < 0.5, ids[j] if ctx.rng.random() < 0.5 else None) for j in range(3)]
        rep, det = replay(ctx, v)
        if rep and not done:
            done = True
            ctx.report('C12/native', f'overrides {v}: {det.get("failed") or det.get("real")}', det, True, det)
        elif not rep:
            ctx.replayed_ok += 1
    # vertex entry without struct parameters / with struct parameters, overrides present
    src = ('override k: f32;\n@id(3) override j: u32 = 1u;\nstruct V { @location(0) p: vec4<f32> }\n'
           '@vertex fn v1(@builtin(vertex_index) i: u32) -> @builtin(position) vec4<f32> { return vec4<f32>(k); }\n'
           '@vertex fn v2(a: V) -> @builtin(position) vec4<f32> { return a.p; }\n@fragment fn f1() {}\n')
    kind, toks, _ = ctx.gen_tokens(src, {})
    if kind == 'ok':
        en = decode_entry_items(toks)
        okv = all(e['fields'].get('constants') == 'overrides . constants ()' for e in list(en['vertex'].values()) + list(en['fragment'].values()))
        okv = okv and all(p_[-1] == ('overrides', '& OverrideConstants') for p_ in [e['params'] for e in en['vertex'].values()])
        if not okv and not done:
            ctx.report('C12/native-entries', 'an entry helper does not take / pass the override map', {'wgsl': src}, True)

if __name__ == '__main__':
    sys.exit(main('C12', run, native))
