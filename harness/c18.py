"""C18  Output is a pure function of source and options.   (claimed for hash-order and hidden-state independence)

Real code executed symbolically: create_shader_module_inner and everything below it.
(i)  HashSet / hash iteration is modelled adversarially: membership is exact, but any order-exposing operation returns the
     members in an order chosen by fresh solver decisions (a strict over-approximation of SipHash with random keys).  For
     symbolic modules (struct usage graphs of C08, binding layouts of C04) two explored paths that can stem from the same
     input must return identical tokens.
(ii) two consecutive interpreted calls on the same symbolic input in one interpreter state return identical tokens; any
     read of the environment, clock, randomness, process id, working directory is modelled as a fresh unknown and recorded -
     a dependence of the output on it is a counterexample; any other unmodelled callee stops the check (exit 2).
Not covered: real thread interleavings and process boundaries (supplement: the real build is run in fresh processes with
different hash seeds / cwd / environment, and on many threads at once, every run).
"""
import glob
import os
import subprocess
import tempfile
import json as _json
import z3
from harness.common import *
from harness import c08 as C08
from mirsym.oracle import Oracle, BIN
from mirsym.session import REPO


def fresh_process_outputs(ctx, src, opts, n, include=None, extra_env=None):
    """real build in n fresh processes with different hash seeds (inherent), working directories and environments"""
    outs = []
    for i in range(n):
        d = tempfile.mkdtemp(prefix='purity', dir=os.path.join(VERIF, '.cache'))
        env = {'PATH': '/usr/bin:/bin', 'HOME': d, 'TMPDIR': d, 'LANG': ['C', 'en_US.UTF-8', 'tr_TR.UTF-8'][i % 3], 'RUST_BACKTRACE': str(i % 2),
               'TZ': ['UTC', 'Asia/Tokyo'][i % 2], 'VERIF_NOISE': 'x' * i}
        env.update((extra_env or [{}])[i % len(extra_env or [{}])])
        p = subprocess.run([BIN], input=_json.dumps({'cmd': 'gen', 'wgsl': src, 'options': opts, 'include': include}) + '\n', capture_output=True, text=True, cwd=d, env=env)
        outs.append(p.stdout)
        try:
            os.rmdir(d)
        except OSError:
            pass
    return outs


def run(ctx):
    S, c = ctx.S, ctx.S.conv
    quick = ctx.tier == 'quick'
    ctx.assumptions += ['HashSet/HashMap iteration order is arbitrary (every permutation up to 4 members; every rotation and the reverse beyond), membership exact',
                        'the crate\'s MIR contains no statics / thread-locals (checked per run); library internals are not encoded',
                        'real concurrency is not modelled: the argument is that calls share no state (ii); many-thread and fresh-process runs of the real '
                        'build are a supplement, not the decision']
    ctx.bounds = {'modules': 'C08 usage-graph skeleton with 2-3 symbolic holes per run; the repository fixtures concretely'}
    # the crate must not define mutable global state
    statics = [n for n in S.bodies if n.startswith('static ') or 'thread_local' in n]
    src_text = ''.join(open(f).read() for f in glob.glob(REPO + '/wgsl_to_wgpu/src/*.rs'))
    import re
    # only non-test code: cut everything from the first #[cfg(test)] of each file
    decl = []
    for f in glob.glob(REPO + '/wgsl_to_wgpu/src/*.rs'):
        body = open(f).read().split('#[cfg(test)]')[0]
        decl += re.findall(r'^\s*(?:pub\s+)?static\s+(?:mut\s+)?\w+|thread_local!|lazy_static!|OnceLock|OnceCell|AtomicU|Mutex<|RwLock<', body, re.M)
    ctx.queries['discharged'] += 1
    if decl or statics:
        ctx.queries['sat'] += 1
        ctx.extra['global_state_declarations'] = decl + statics
    else:
        ctx.queries['unsat'] += 1
    # ---------------------------------------------------------------- (i)+(ii) on symbolic usage graphs
    d = S.dump(C08.SRC)
    mj = d['module']
    H = {t['name']: i for i, t in enumerate(mj['types']) if t['name']}
    hf32 = next(i for i, t in enumerate(mj['types']) if t['inner'].get('Scalar') == {'kind': 'Float', 'width': 4})
    plans = [('g0', 'S2.m'), ('g1', 'S3.m')] if quick else [('g0', 'S2.m'), ('g1', 'S3.m'), ('g2', 'S1.m', 'g0'), ('g0', 'g1')]
    gdom = [hf32, H['S0'], H['S2'], H['S3'], H['A2'], H['AA0']]
    mdom = {'S1.m': [hf32, H['S0'], H['A0']], 'S2.m': [hf32, H['S0'], H['S1'], H['A1']], 'S3.m': [hf32, H['S1'], H['S2'], H['A2']]}
    opts = dict(derive_encase_host_shareable=True)
    seen = {}
    for plan in plans:
        module = c.module(S.dump(C08.SRC))
        types = c.get(module, 'types').fields[0].items
        gvs = c.get(module, 'global_variables').fields[0].items
        terms, assume = {}, []
        for name in plan:
            t = z3.BitVec(name.replace('.', '_'), 32)
            terms[name] = t
            if name.startswith('g'):
                c.set(gvs[int(name[1])], 'ty', t)
                assume.append(z3.Or([t == v for v in gdom]))
            else:
                ms = c.get(types[H[name[:2]]], 'inner').fields[0].items
                c.set(ms[1], 'ty', t)
                assume.append(z3.Or([t == v for v in mdom[name]]))
        env = env_passthrough(module, C08.SRC)
        info = {}

        def go(it):
            it.env['hash_iterated'], it.env['impure_reads'] = [], []
            a = it.call('create_shader_module_inner', [C08.SRC, none(), write_options(S.conv, **opts)])
            b = it.call('create_shader_module_inner', [C08.SRC, none(), write_options(S.conv, **opts)])
            info[len(info)] = (list(it.env['hash_iterated']), list(it.env['impure_reads']))
            return tup(a, b)
        res = ctx.explore(f'create_shader_module_inner x2/usage-graph-{"+".join(plan)}', go, assume=assume, env=env,
                          anchors=['create_shader_module_inner', 'structs', 'get_bind_group_data'], timeout_s=3000)
        groups = []
        any_hash = False
        for k, (pc, kind, out, _) in enumerate(res):
            hashed, impure_reads = info.get(k, ([], []))
            any_hash = any_hash or bool(hashed)
            ctx.queries['discharged'] += 1
            if kind != 'ok':
                ctx.queries['unsat'] += 1          # refusals are not outputs
                continue
            a, b = out.fields
            ca = T.canon(a.fields[0].toks) if a.disc == 0 else ('err', a.fields[0].variant)
            cb = T.canon(b.fields[0].toks) if b.disc == 0 else ('err', b.fields[0].variant)
            bad = None
            if ca != cb:
                bad = 'a second call in the same state returns different tokens'
            elif impure_reads:
                bad = f'the call reads {impure_reads}'
            if bad:
                ctx.queries['sat'] += 1
                key = 'C18/' + bad[:40]
                seen[key] = seen.get(key, 0) + 1
                if seen[key] == 1:
                    rep, det = native_purity(ctx)
                    ctx.report(key, bad, det, rep, det)
                continue
            ctx.queries['unsat'] += 1
            groups.append((pc, ca, hashed))
        # hash-order independence: two paths that can stem from the same input must agree
        if any_hash:
            for i, j in hash_pairs(groups):
                if seen.get('C18/hash-order'):
                    break
                ctx.queries['discharged'] += 1
                pci = [x for x in groups[i][0] if not mentions_hash(x)]
                pcj = [x for x in groups[j][0] if not mentions_hash(x)]
                m = ctx.check(pci + pcj, z3.BoolVal(True))
                if m is None:
                    continue
                key = 'C18/hash-order'
                seen[key] = seen.get(key, 0) + 1
                if seen[key] == 1:
                    vals = dict(C08_defaults(H, hf32), **{k: model_value(m, v) for k, v in terms.items()})
                    src2 = C08.render(vals, H, hf32, vals['e0.res'], mj)
                    rep, det = native_hash(ctx, src2, opts)
                    ctx.report(key, f'output depends on hash iteration order ({groups[i][2]}) for usage {vals}', det, rep, det)
        ctx.extra.setdefault('hash_iterations_seen', 0)
        ctx.extra['hash_iterations_seen'] += int(any_hash)
        oks = [r for r in res if r[1] == 'ok']
        ctx.vacuity_witness('purity assertions reachable', oks[0][0])
    # ---------------------------------------------------------------- (i') vertex input structs whose sort / dedup keys may tie
    vertex_family(ctx, seen)
    # ---------------------------------------------------------------- (ii') history independence under a changing environment
    history_check(ctx, seen)
    # ---------------------------------------------------------------- concrete fixtures: twice in one state + natively across processes / threads
    fixtures = sorted(glob.glob('/repo/wgsl_to_wgpu/src/data/**/*.wgsl', recursive=True) + glob.glob('/repo/wgsl_to_wgpu/tests/wgsl/*.wgsl'))
    good_srcs = []
    for f in fixtures[:: (2 if quick else 1)]:
        src = open(f).read()
        o = {'derive_encase_host_shareable': True}
        if 'ok' in ctx.S.oracle.gen(src, o):
            good_srcs.append(src)
            ctx.differential(src, o)
    native(ctx, good_srcs)
    ctx.extra['violations_by_rule'] = seen


VSRC_T = '''struct VA { @location(%du) a: vec4<f32>, @location(%du) b: f32 }
struct VB { @location(%du) c: vec2<f32> }
struct VC { @builtin(vertex_index) i: u32, @builtin(instance_index) j: u32 }
@vertex fn v0(a: VA, c: VC) -> @builtin(position) vec4<f32> { return a.a; }
@vertex fn v1(b: VB) -> @builtin(position) vec4<f32> { return vec4<f32>(b.c, 0.0, 1.0); }
@vertex fn v2(b: VB, a: VA) -> @builtin(position) vec4<f32> { return a.a; }
'''
VLOCATED = [('VA', 0), ('VA', 1), ('VB', 0)]


def vsrc(locs=(0, 1, 0)):
    return VSRC_T % tuple(locs)


def vertex_family(ctx, seen):
    """several vertex entries sharing input structs; every @location is symbolic (all of u32, distinct within a struct), so keys that
    order or deduplicate the structs (name, first location, member count ...) can tie; two of the structs carry builtins only"""
    S, c = ctx.S, ctx.S.conv
    src = vsrc()
    d = S.dump(src)
    module = c.module(d)
    H = {t['name']: i for i, t in enumerate(d['module']['types']) if t['name']}
    types = c.get(module, 'types').fields[0].items
    locs = []
    for sname, mi in VLOCATED:
        l = z3.BitVec(f'{sname}_m{mi}_location', 32)
        c.get(c.get(types[H[sname]], 'inner').fields[0].items[mi], 'binding').fields[0].fields[0] = l
        locs.append(l)
    env = env_passthrough(module, src)
    info = {}

    def go(it):
        it.env['hash_iterated'], it.env['impure_reads'] = [], []
        a = it.call('create_shader_module_inner', [src, none(), write_options(S.conv)])
        info[len(info)] = (list(it.env['hash_iterated']), list(it.env['impure_reads']))
        return tup(a, a)        # one call per path here: the same-state second call is checked on the usage-graph family above
    res = ctx.explore('create_shader_module_inner/vertex-structs-symbolic-locations', go, assume=[locs[0] != locs[1]], env=env,
                      anchors=['create_shader_module_inner', 'get_vertex_input_structs', 'vertex_struct_methods'], timeout_s=900)
    groups = []
    for k, (pc, kind, out, _) in enumerate(res):
        hashed, impure_reads = info.get(k, ([], []))
        ctx.queries['discharged'] += 1
        if kind != 'ok':
            ctx.queries['unsat'] += 1
            continue
        a, b = out.fields
        ca = T.canon(a.fields[0].toks) if a.disc == 0 else ('err', a.fields[0].variant)
        cb = T.canon(b.fields[0].toks) if b.disc == 0 else ('err', b.fields[0].variant)
        if ca != cb or impure_reads:
            ctx.queries['sat'] += 1
            key = 'C18/vertex: second call differs'
            seen[key] = seen.get(key, 0) + 1
            if seen[key] == 1:
                m = ctx.witness(pc)
                w = vsrc([model_value(m, l) for l in locs])
                rep, det = native_hash(ctx, w, {})
                ctx.report(key, 'a second call in the same state returns different tokens' if ca != cb else f'the call reads {impure_reads}', det, rep, det)
            continue
        ctx.queries['unsat'] += 1
        groups.append((pc, ca, hashed))
    for i, j in hash_pairs(groups):
        if seen.get('C18/hash-order (vertex structs)'):
            break
        ctx.queries['discharged'] += 1
        pci = [x for x in groups[i][0] if not mentions_hash(x)]
        pcj = [x for x in groups[j][0] if not mentions_hash(x)]
        m = ctx.check(pci + pcj, z3.BoolVal(True))
        if m is None:
            continue
        key = 'C18/hash-order (vertex structs)'
        seen[key] = seen.get(key, 0) + 1
        if seen[key] == 1:
            lv = [model_value(m, l) for l in locs]
            w = vsrc(lv)
            rep, det = native_hash(ctx, w, {})
            ctx.report(key, f'output depends on hash iteration order ({groups[i][2] or groups[j][2]}) for vertex structs with locations {lv}', det, rep, det)
    oks = [r for r in res if r[1] == 'ok']
    ctx.vacuity_witness('vertex-struct purity assertions reachable', oks[0][0])


TIE_SRCS = [
    # items of one kind whose natural sort / selection keys TIE (equal sizes, equal first locations, equal binding counts ...): any choice
    # made by iteration order of a hash container shows up as different text in different processes
    'struct VC { t: vec4<f32> }\nstruct FC { t: vec4<f32> }\nvar<push_constant> vcs: VC;\nvar<push_constant> fcs: FC;\n'
    '@vertex fn vs() -> @builtin(position) vec4<f32> { return vcs.t; }\n@fragment fn fs() -> @location(0) vec4<f32> { return fcs.t; }\n',
    'struct A { x: f32 }\nstruct B { x: f32 }\nstruct C { x: f32 }\n@group(0) @binding(0) var<uniform> a: A;\n@group(1) @binding(0) var<uniform> b: B;\n'
    '@group(2) @binding(0) var<uniform> c: C;\noverride o1: f32 = 1.0;\noverride o2: f32 = 1.0;\nconst K1: u32 = 1u;\nconst K2: u32 = 1u;\n'
    '@vertex fn vs() -> @builtin(position) vec4<f32> { return vec4<f32>(a.x * o1); }\n@fragment fn fs() -> @location(0) vec4<f32> { return vec4<f32>(b.x * o2); }\n'
    '@compute @workgroup_size(1) fn c1() { let t = c.x; }\n@compute @workgroup_size(1) fn c2() { let t = c.x; }\n',
]


def native(ctx, srcs=None):
    srcs = list(srcs or [open(f).read() for f in sorted(glob.glob('/repo/wgsl_to_wgpu/src/data/bindgroup/*.wgsl'))]) + [vsrc(), vsrc((1, 0, 1))] + TIE_SRCS
    rep, det = native_purity(ctx, srcs)
    if rep:
        ctx.report('C18/native', f'real build is not a function of its input: {det.get("first")}', det, True, det)
    rep, det = native_environment(ctx)
    ctx.sample({'native environment run': det})
    if rep:
        ctx.report('C18/environment', f'real build: the generated text depends on environment variables of the process: {det}', det, True, det)
    else:
        ctx.replayed_ok += 1
    rep, det = native_sequence(ctx)
    ctx.sample({'native sequence run': {k: v for k, v in det.items() if k != 'first_difference'}})
    if rep:
        ctx.report('C18/sequence', f'real build: a call returns something else after other calls ran in the same process: {det["first_difference"]}', det, True, det)
    else:
        ctx.replayed_ok += 1
    rep, det = native_history(ctx, open('/repo/wgsl_to_wgpu/src/data/fragment_simple.wgsl').read())
    ctx.sample({'native history run': det})
    if rep:
        ctx.report('C18/history', 'real build: the same call returns different text after another call ran under a different environment', det, True, det)
    else:
        ctx.replayed_ok += 1


class FmtOut:
    """stdout of a working formatter"""
    empty = False

    def __repr__(self):
        return 'FormatterStdout'


def history_check(ctx, seen):
    """call 1 under environment e1, call 2 under environment e2 (formatter present / absent, symbolic); then the crate's global state
    is reset and call 3 runs under e2 again: calls 2 and 3 must agree - the result may depend on the environment of THIS call only"""
    S = ctx.S
    src = open('/repo/wgsl_to_wgpu/src/data/fragment_simple.wgsl').read()
    module = S.module(src)
    env = env_passthrough(module, src)

    def go(it):
        plan = {'fixed': None}

        def spawn(it_, cmd):
            if plan['fixed'] is None:
                okv = it_.truth(it_.fresh('formatter_present', 'bool'))
            else:
                okv = plan['fixed']
            plan['last'] = okv
            if not okv:
                return err(Opaque('io::Error(NotFound)'))
            return ok(Agg('Child', [Opaque('handle'), some(Opaque('ChildStdin')), some(Opaque('ChildStdout')), none()]))
        it.env.update({'spawn': spawn, 'write_all': lambda it_, s_, d_: ok(unit()),
                       'wait_with_output': lambda it_, c_: ok(Agg('Output', [Agg('ExitStatus', [True, some(0)]), 'STDOUT', VecV()])),
                       'from_utf8': lambda it_, b_: ok(FmtOut())})
        it.env['statics_touched'] = []
        call = lambda: it.call('create_shader_module_inner', [src, none(), write_options(S.conv, rustfmt=True)])
        a = call()
        b = call()
        e2 = plan['last']
        it.statics.clear()
        plan['fixed'] = e2
        c_ = call()
        return tup(a, b, c_, list(it.env['statics_touched']))
    res = ctx.explore('create_shader_module_inner x3/history', go, env=env, anchors=['create_shader_module_inner', 'pretty_print_rustfmt'])

    def shape(r):
        if r.disc != 0:
            return ('err', r.fields[0].variant)
        v = r.fields[0]
        return ('formatted',) if isinstance(v, FmtOut) else ('tokens', tuple(map(str, T.canon(v.toks))))
    for pc, kind, out, _ in res:
        ctx.queries['discharged'] += 1
        if kind != 'ok':
            raise Inconclusive(f'history harness did not return: {kind} {out}')
        a, b, c_, touched = out.fields
        if shape(b) == shape(c_):
            ctx.queries['unsat'] += 1
            continue
        ctx.queries['sat'] += 1
        key = 'C18/history'
        seen[key] = seen.get(key, 0) + 1
        if seen[key] == 1:
            rep, det = native_history(ctx, src)
            ctx.report(key, f'the result of a call depends on earlier calls (global state {touched}): same environment, {shape(b)[0]} after history vs {shape(c_)[0]} fresh',
                       det, rep, det)
    ctx.extra['statics_touched'] = sorted({t for r in res if r[1] == 'ok' for t in r[2].fields[3]})


def native_history(ctx, src):
    """real build, one process: A with a working formatter, B with none on PATH, A again; first and third must be identical"""
    d = tempfile.mkdtemp(prefix='hist', dir=os.path.join(VERIF, '.cache'))
    try:
        good, bad = os.path.join(d, 'good'), os.path.join(d, 'bad')
        os.makedirs(good)
        os.makedirs(bad)
        p = os.path.join(good, 'rustfmt')
        open(p, 'w').write('#!/bin/sh\nt=$(/bin/mktemp)\n/bin/cat > "$t"\necho "// formatted"\n/bin/cat "$t"\n/bin/rm -f "$t"\nexit 0\n')
        os.chmod(p, 0o755)
        o = Oracle(env={'PATH': good})
        other = src.replace('fs_main', 'fs_other')
        r = o.seq([{'wgsl': src, 'options': {'rustfmt': True}, 'path': good}, {'wgsl': other, 'options': {'rustfmt': True}, 'path': bad},
                   {'wgsl': src, 'options': {'rustfmt': True}, 'path': good}])
        o.close()
        outs = r.get('outputs', [])
        det = {'steps': ['A with formatter', 'B without formatter on PATH', 'A with formatter'], 'first_equals_third': len(outs) == 3 and outs[0] == outs[2]}
        return not det['first_equals_third'], det
    finally:
        import shutil
        shutil.rmtree(d, ignore_errors=True)


SEQ_SRCS = ['struct P { a: mat4x4<f32>, b: vec4<f32> }\n@group(0) @binding(0) var<uniform> p: P;\n@fragment fn f() { let x = p.b; }\n',
            'struct Q { x: f32, y: f32 }\n@group(0) @binding(0) var<uniform> q: Q;\nstruct R { m: mat2x2<f32> }\n@group(0) @binding(1) var<storage, read> r: R;\n@compute @workgroup_size(1) fn c() { let x = q.x; }\n',
            'struct V { @location(0) p: vec3<f32>, @location(1) n: vec3<f32> }\n@group(0) @binding(0) var<uniform> v: V;\n@vertex fn vs(i: V) -> @builtin(position) vec4<f32> { return vec4<f32>(i.p, 1.0); }\n']
SEQ_OPTS = [{'derive_bytemuck_host_shareable': True}, {'derive_encase_host_shareable': True, 'matrix_vector_types': 'Glam'},
            {'derive_bytemuck_host_shareable': True, 'derive_bytemuck_vertex': True, 'derive_serde': True, 'matrix_vector_types': 'Nalgebra'}]


BUILD_ENV_VARS = ['CARGO_MANIFEST_DIR', 'OUT_DIR', 'CARGO_TARGET_DIR', 'PWD', 'CARGO_PKG_NAME', 'CARGO_HOME', 'RUSTFLAGS', 'WGSL_TO_WGPU', 'TERM', 'NO_COLOR']


def native_environment(ctx):
    """real build, include variant with an absolute path: the text must not depend on build-related environment variables, whether they
    are unset, name a directory that contains the include path, or name something else"""
    src = open('/repo/wgsl_to_wgpu/src/data/fragment_simple.wgsl').read()
    root = os.path.join(VERIF, '.cache', 'envroot')
    include = os.path.join(root, 'shaders', 'a.wgsl')
    envs = [{}] + [{v: root for v in BUILD_ENV_VARS}, {v: os.path.join(root, 'shaders') for v in BUILD_ENV_VARS}, {v: '/' for v in BUILD_ENV_VARS},
                   {v: '1' for v in BUILD_ENV_VARS}]
    outs = fresh_process_outputs(ctx, src, {}, len(envs), include=include, extra_env=envs)
    outs_rel = fresh_process_outputs(ctx, src, {}, len(envs), include='shaders/a.wgsl', extra_env=envs)
    det = {'include': include, 'environments': len(envs), 'distinct_outputs': len(set(outs)), 'distinct_outputs_relative_path': len(set(outs_rel))}
    return len(set(outs)) > 1 or len(set(outs_rel)) > 1, det


def native_sequence(ctx):
    """real build: calls on DIFFERENT shaders / options made one after another in one process (same thread) must each return what a
    fresh process returns for the same call - state kept between calls (caches keyed by handle index, thread-locals ...) shows up here"""
    steps = []
    for o in SEQ_OPTS:
        for src in SEQ_SRCS + SEQ_SRCS[::-1]:
            steps.append({'wgsl': src, 'options': o})
    # validation with different capability sets one after another (a validator kept between calls would answer for the wrong set)
    pc_src = 'var<push_constant> pc: vec4<f32>;\n@fragment fn f() -> @location(0) vec4<f32> { return pc; }\n'
    for v in (True, 0, True, 1, 0):
        steps.append({'wgsl': pc_src, 'options': {'validate': v}})
        steps.append({'wgsl': SEQ_SRCS[0], 'options': {'validate': v}})
    o = Oracle()
    r = o.seq(steps)
    o.close()
    outs = r.get('outputs', [])
    det = {'calls_in_one_process': len(steps), 'first_difference': None}
    fresh = {}
    for st, got in zip(steps, outs):
        k = (st['wgsl'], _json.dumps(st['options'], sort_keys=True))
        if k not in fresh:
            fresh[k] = fresh_process_outputs(ctx, st['wgsl'], st['options'], 1)[0]
        want = _json.loads(fresh[k]) if fresh[k].strip() else {'crash': True}
        if got != want and det['first_difference'] is None:
            a_, b_ = str(got.get('ok', got)), str(want.get('ok', want))
            i = next((j for j, (x, y) in enumerate(zip(a_, b_)) if x != y), min(len(a_), len(b_)))
            det['first_difference'] = {'wgsl': st['wgsl'], 'options': st['options'], 'position_in_sequence': steps.index(st),
                                       'in_sequence': a_[max(0, i - 60):i + 60], 'fresh_process': b_[max(0, i - 60):i + 60]}
    return len(outs) != len(steps) or det['first_difference'] is not None, det


def hash_pairs(groups):
    """pairs of explored paths worth a co-satisfiability query: one representative per (input decisions, output); paths that differ only
    in hash-order decisions share their input decisions, so an order dependence shows up inside one bucket first"""
    buckets = {}
    for idx, (pc, ca, hashed) in enumerate(groups):
        key = tuple(sorted(str(x) for x in pc if not mentions_hash(x)))
        buckets.setdefault(key, {}).setdefault(str(ca), idx)
    pairs = []
    for b in buckets.values():                      # same inputs, different outputs: the interesting pairs, first
        reps = list(b.values())
        pairs += [(reps[x], reps[y]) for x in range(len(reps)) for y in range(x)]
    flat = [idx for b in buckets.values() for idx in list(b.values())[:1]]
    pairs += [(flat[x], flat[y]) for x in range(len(flat)) for y in range(x) if str(groups[flat[x]][1]) != str(groups[flat[y]][1])]
    return pairs


def mentions_hash(f):
    return 'hash_pick' in str(f) or 'hash_reversed' in str(f)


def C08_defaults(H, hf32):
    hvec4 = None
    return {'g0': hf32, 'g1': hf32, 'g2': hf32, 'S1.m': hf32, 'S2.m': hf32, 'S3.m': hf32, 'S3.m2': hf32, 'e0.arg': H['S0'], 'e1.arg': H['S0'],
            'e0.arg2': H['P'], 'e1.arg2': H['P'], 'e0.res': -1, 'e1.res': -1}


def native_hash(ctx, src, opts):
    if src is None:
        return False, {'note': 'no WGSL spelling'}
    outs = fresh_process_outputs(ctx, src, opts, 24)
    return len(set(outs)) > 1, {'wgsl': src, 'distinct_outputs_over_24_processes': len(set(outs))}


def native_purity(ctx, srcs=None):
    srcs = srcs or [open(f).read() for f in sorted(glob.glob('/repo/wgsl_to_wgpu/src/data/bindgroup/*.wgsl'))]
    det = {'first': None, 'processes': 0}
    o = {'derive_encase_host_shareable': True}
    for src in srcs:
        outs = fresh_process_outputs(ctx, src, o, 6 if ctx.tier == 'quick' else 16)
        det['processes'] += len(outs)
        same_proc = [ctx.S.oracle.gen(src, o) for _ in range(3)]
        if len(set(outs)) > 1 or any(x != same_proc[0] for x in same_proc):
            det['first'] = det['first'] or {'wgsl': src, 'distinct_outputs_across_processes': len(set(outs))}
        else:
            ctx.replayed_ok += 1
    r = ctx.S.oracle.concurrent(srcs, o, rounds=4 if ctx.tier == 'quick' else 16)
    det['concurrent'] = r
    if not r.get('equal'):
        det['first'] = det['first'] or {'concurrent': r}
    else:
        ctx.replayed_ok += 1
    ctx.sample({'fresh processes': det['processes'], 'threads generating concurrently': r.get('threads'), 'all equal': det['first'] is None})
    return det['first'] is not None, det


if __name__ == '__main__':
    sys.exit(main('C18', run, native))
