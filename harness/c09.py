"""C09  Derives and repr follow the write options exactly.

Real code executed symbolically: structs / rust_struct (derive list, repr, panics) and create_shader_module_inner (non-
interference of the options with the rest of the output).
Symbolic: the four derive switches, the representation; struct roles are covered by a template holding every role (also run without any vertex entry point):
host-only, vertex-only, vertex + host, fragment input, runtime-array-terminated host struct, vertex input that is also the
type of a private variable, struct of a workgroup variable.
"""
import z3
from harness.common import *
from harness.structs_common import *

SRC_NO_RT = '''struct Inner { a: f32, b: vec3<f32> }
struct HostOnly { x: f32, inner: Inner }
struct VertexOnly { @location(0) p: vec4<f32>, @builtin(vertex_index) vi: u32 }
struct Both { @location(2) p: vec3<f32>, @location(3) w: f32 }
struct FragIn { @location(0) c: vec4<f32> }
struct VsOut { @builtin(position) pos: vec4<f32>, @location(0) c: vec4<f32> }
struct BigArr { n: u32, data: array<vec4<f32>, 7> }
struct Inst2 { @location(5) p: vec4<f32>, @location(6) q: vec4<f32> }
struct Scene { fallback: Inst2, exposure: f32, gamma: f32 }
struct PrivIn { @location(9) p: vec4<f32>, @location(10) s: f32 }
struct WgOnly { k: u32, l: vec2<u32> }
struct Flags { on: bool, n: u32, mask: vec2<bool> }
var<private> flags: Flags;
var<private> stash: PrivIn;
var<workgroup> wg: WgOnly;
@group(0) @binding(4) var<uniform> scene: Scene;
@group(0) @binding(3) var<uniform> bigarr: BigArr;
@group(0) @binding(0) var<uniform> host: HostOnly;
@group(0) @binding(1) var<uniform> both: Both;
const K: u32 = 3u;
override scale: f32 = 1.0;
var<push_constant> pc: vec4<f32>;
@vertex fn vs(a: VertexOnly, b: Both, c: Inst2, d: PrivIn) -> VsOut { var o: VsOut; o.pos = a.p; return o; }
@fragment fn fs(i: FragIn) -> @location(0) vec4<f32> { return i.c * host.x * pc.x; }
@compute @workgroup_size(2) fn cs() {}
'''
# the same module without any vertex entry point: the former vertex inputs are now inputs of a second fragment entry
SRC_NO_VERTEX = SRC_NO_RT.replace('@vertex fn vs(a: VertexOnly, b: Both, c: Inst2, d: PrivIn) -> VsOut { var o: VsOut; o.pos = a.p; return o; }',
                                  '@fragment fn vs(a: VertexOnly, b: Both, c: Inst2, d: PrivIn) -> @location(0) vec4<f32> { return a.p; }')
assert SRC_NO_VERTEX != SRC_NO_RT
SRC_RT = SRC_NO_RT + '''struct RtHost { n: u32, data: array<vec4<f32>> }
@group(0) @binding(2) var<storage, read> rt: RtHost;
'''
ROLES = {'Inner': ('host', False), 'HostOnly': ('host', False), 'VertexOnly': ('vertex', False), 'Both': ('host', False),
         'FragIn': ('other', False), 'RtHost': ('host', True), 'BigArr': ('host', False), 'Inst2': ('host', False), 'Scene': ('host', False),
         'PrivIn': ('host', False), 'WgOnly': ('host', False), 'Flags': ('host', False)}        # reachable from a module-scope variable of ANY address space


def expected_derives(role, rt, o):
    """z3 conditions per derive name"""
    host = role == 'host'
    T_, F_ = z3.BoolVal(True), z3.BoolVal(False)
    pod = o['derive_bytemuck_host_shareable'] if host else o['derive_bytemuck_vertex']
    return {'Debug': T_, 'Clone': T_, 'PartialEq': T_, 'Copy': z3.BoolVal(not rt),
            'bytemuck::Pod': pod, 'bytemuck::Zeroable': pod,
            'encase::ShaderType': o['derive_encase_host_shareable'] if host else F_,
            'serde::Serialize': o['derive_serde'], 'serde::Deserialize': o['derive_serde']}


def conditions(sts, o, with_rt):
    B = z3.BoolVal
    conds = []
    for name, (role, rt) in ROLES.items():
        if rt and not with_rt:
            continue
        st = sts.get(name)
        if st is None:
            conds.append((f'{name}: emitted', B(False)))
            continue
        exp = expected_derives(role, rt, o)
        got = st['derives']
        conds.append((f'{name}: no duplicate / unknown derive', B(len(set(got)) == len(got) and set(got) <= set(exp))))
        for dname, want in exp.items():
            conds.append((f'{name}: derive {dname}', want == B(dname in got)))
        conds.append((f'{name}: #[repr(C)] iff no runtime-sized array', B((st['repr'] == ['C']) == (not rt) and (st['repr'] in ([], ['C'])))))
        host = role == 'host'
        conds.append((f'{name}: layout assertions exactly with bytemuck host-shareable',
                      (o['derive_bytemuck_host_shareable'] if host else B(False)) == B(len(st['asserts']) > 0)))
        conds.append((f'{name}: public, no stray attribute', B(st['pub'] and st['other_attrs'] == [])))
    conds.append(('stage-output struct is not emitted', B('VsOut' not in sts)))
    return conds


def run(ctx):
    S, c = ctx.S, ctx.S.conv
    o = {k: z3.Bool(k) for k in ('derive_bytemuck_vertex', 'derive_bytemuck_host_shareable', 'derive_encase_host_shareable', 'derive_serde')}
    fmt = z3.BitVec('matrix_vector_types', 64)
    alen = z3.BitVec('array_length', 32)
    ctx.bounds = {'array length of one host struct member': 'symbolic, 1..4096', 'options': 'all 2^4 switches x 3 representations x validation off / on (symbolic)', 'struct roles': list(ROLES)}
    ctx.assumptions += ['struct roles come from one template holding every role; symbolic reachability is C08',
                        'non-interference is checked on the token stream handed to the printer (formatter: C19, validation: C17)']
    seen = {}
    # validation off / on is one more option that must not change anything (validator stub accepting)
    von = z3.Bool('validate_is_some')
    vo = Agg('Option', {'Some': [Agg('ValidationOptions', [Agg('Capabilities', [Agg('InternalBitFlags', [z3.BitVec('capabilities', 32)])])])], 'None': []},
             disc=z3.If(von, z3.BitVecVal(1, 64), z3.BitVecVal(0, 64)))

    def opts_of(m_):
        d_ = {k: model_value(m_, v) for k, v in o.items()}
        d_['validate'] = model_value(m_, von)
        return d_
    for label, src in (('no-runtime-array', SRC_NO_RT), ('runtime-array', SRC_RT), ('no-vertex-entry', SRC_NO_VERTEX)):
        with_rt = src is SRC_RT
        module = S.module(src)
        # the length of BigArr.data is symbolic (1..4096): derives must not depend on it
        mj_ = S.dump(src)['module']
        arr_h = next(i for i, t in enumerate(mj_['types']) if t['inner'].get('Array', {}).get('size') == {'Constant': 7})
        c.get(c.get(module, 'types').fields[0].items[arr_h], 'inner').fields[1] = c.enum('ArraySize', 'Constant', [alen])
        module.sym_types = {arr_h, next(i for i, t in enumerate(mj_['types']) if t['name'] == 'BigArr')}
        env = env_passthrough(module, src)
        res = ctx.explore(f'create_shader_module_inner/options/{label}',
                          lambda it: it.call('create_shader_module_inner', [src, none(), write_options(S.conv, matrix_vector_types=fmt, validate=vo, **o)]),
                          assume=[z3.ULT(fmt, 3), z3.UGE(alen, 1), z3.ULE(alen, 4096)], env=env,
                          anchors=['structs', 'rust_struct', 'create_shader_module_inner'], timeout_s=3000)
        groups = {}
        for pc, kind, out, _ in res:
            # documented refusals: runtime array without encase; runtime array with bytemuck on that role (host)
            must_panic = z3.BoolVal(False)
            if with_rt:
                must_panic = z3.Or(z3.Not(o['derive_encase_host_shareable']), o['derive_bytemuck_host_shareable'])
            if kind == 'panic':
                known_msgs = ('Runtime-sized array fields are only supported with encase', 'Runtime-sized array fields are not supported with bytemuck')
                m = ctx.check(pc, z3.Or(z3.Not(must_panic), z3.BoolVal(not out.startswith(known_msgs))))
                if m is not None:
                    opts = opts_of(m)
                    k2, r2, _ = ctx.gen_tokens(src, dict(opts, matrix_vector_types=['Rust', 'Glam', 'Nalgebra'][model_value(m, fmt)]))
                    ctx.report('C09/unexpected-panic', f'generator panics ({out}) with options {opts}', {'wgsl': src, 'options': opts}, k2 == 'panic')
                continue
            if out.disc != 0:
                raise Inconclusive(f'template rejected: {out}')
            toks = out.fields[0].toks
            sts, order = decode_structs(toks)
            conds = [('no panic where the documentation demands one', z3.Not(must_panic))] + conditions(sts, o, with_rt)
            m = ctx.check(pc, z3.Or([z3.Not(c_) for _, c_ in conds]))
            if m is not None:
                failed = [n for n, c_ in conds if not z3.is_true(m.eval(c_, model_completion=True))]
                key = 'C09/' + failed[0]
                seen[key] = seen.get(key, 0) + 1
                if seen[key] == 1:
                    opts = opts_of(m)
                    rep, det = replay(ctx, src.replace('array<vec4<f32>, 7>', f'array<vec4<f32>, {model_value(m, alen)}>'), opts, model_value(m, fmt), with_rt)
                    ctx.report(key, f'"{failed[0]}" with options {opts}', det, rep, det)
            # non-interference: everything that is not a struct item / layout assertion must be identical on all paths;
            # struct items may differ only in attributes and (per representation) field types
            its = T.items(toks)
            rest = [T.canon(x.toks) for x in its if not (x.kind == 'struct' and x.name in ROLES) and not (x.kind == 'const' and x.name == '_')]
            m = ctx.witness(pc)
            f_ = model_value(m, fmt)
            fields = {n: [(f[0], T.text(f[2])) for f in st['fields']] for n, st in sts.items() if isinstance(st, dict)}
            groups.setdefault('rest', []).append((rest, pc))
            # with every other option equal, validation off / on must give the same struct items and layout assertions, token for token
            okey = tuple(sorted((k, bool(model_value(m, v))) for k, v in o.items()))
            own = [T.canon(x.toks) for x in its if (x.kind == 'struct' and x.name in ROLES) or (x.kind == 'const' and x.name == '_')]
            groups.setdefault(('validate', okey, f_), []).append((own, pc))
            groups.setdefault(('fields', f_), []).append((fields, pc))
        for gk, lst in groups.items():
            ref = lst[0][0]
            for other, pc in lst[1:]:
                ctx.queries['discharged'] += 1
                if other == ref:
                    ctx.queries['unsat'] += 1
                    continue
                ctx.queries['sat'] += 1
                key = f'C09/interference/{gk if gk == "rest" else ("validation changes structs or assertions" if gk[0] == "validate" else "fields")}'
                seen[key] = seen.get(key, 0) + 1
                if seen[key] == 1:
                    m1, m2 = ctx.witness(lst[0][1]), ctx.witness(pc)
                    o1 = opts_of(m1)
                    o2 = opts_of(m2)
                    f1, f2 = ['Rust', 'Glam', 'Nalgebra'][model_value(m1, fmt)], ['Rust', 'Glam', 'Nalgebra'][model_value(m2, fmt)]
                    rep, det = replay_interference(ctx, src, dict(o1, matrix_vector_types=f1), dict(o2, matrix_vector_types=f2))
                    ctx.report(key, f'options {o1}/{f1} vs {o2}/{f2} change output outside the struct derives', det, rep, det)
        oks = [r for r in res if r[1] == 'ok']
        if not oks:
            raise Inconclusive('no generating path')
        ctx.vacuity_witness('derive assertions reachable', oks[0][0])
        for r in oks[:: max(1, len(oks) // (3 if ctx.tier == 'quick' else 24))]:
            m = ctx.witness(r[0])
            opts = opts_of(m)
            opts['matrix_vector_types'] = ['Rust', 'Glam', 'Nalgebra'][model_value(m, fmt)]
            if src is SRC_NO_VERTEX:
                opts['validate'] = False          # (a fragment entry taking vertex builtins does not pass naga's validator; the generator does not care)
            ctx.differential(src, opts)
            ctx.sample({'options': opts, 'template': label})
    ctx.extra['violations_by_rule'] = seen


def replay(ctx, src, opts, fmt, with_rt):
    o = dict(opts, matrix_vector_types=['Rust', 'Glam', 'Nalgebra'][fmt])
    kind, toks, _ = ctx.gen_tokens(src, o)
    det = {'wgsl': src, 'options': o}
    must_panic = with_rt and (not opts['derive_encase_host_shareable'] or opts['derive_bytemuck_host_shareable'])
    if kind == 'panic':
        det['real'] = toks
        return not must_panic, det
    if kind != 'ok':
        det['real'] = f'{kind}: {toks}'
        return True, det
    if must_panic:
        det['real'] = 'generated although the documentation demands a refusal'
        return True, det
    sts, order = decode_structs(toks)
    oz = {k: z3.BoolVal(v) for k, v in opts.items()}
    bad = [n for n, c_ in conditions(sts, oz, with_rt) if not z3.is_true(z3.simplify(c_))]
    det['failed'] = bad
    det['real'] = {n: st['derives'] for n, st in sts.items() if isinstance(st, dict)}
    return bool(bad), det


def replay_interference(ctx, src, o1, o2):
    k1, t1, _ = ctx.gen_tokens(src, o1)
    k2, t2, _ = ctx.gen_tokens(src, o2)
    if k1 != 'ok' or k2 != 'ok':
        return False, {'real': f'{k1}/{k2}'}
    def rest(toks):
        return [T.canon(x.toks) for x in T.items(toks) if not (x.kind == 'struct' and x.name in ROLES) and not (x.kind == 'const' and x.name == '_')]
    def fields(toks):
        sts, _ = decode_structs(toks)
        return {n: [(f[0], T.text(f[2])) for f in st['fields']] for n, st in sts.items() if isinstance(st, dict)}
    same_fmt = o1['matrix_vector_types'] == o2['matrix_vector_types']
    diff = rest(t1) != rest(t2) or (same_fmt and fields(t1) != fields(t2))
    if {k: v for k, v in o1.items() if k != 'validate'} == {k: v for k, v in o2.items() if k != 'validate'}:
        diff = diff or T.canon(t1) != T.canon(t2)          # only validation differs: the whole module must be the same
    return diff, {'wgsl': src, 'options': [o1, o2]}


def native(ctx):
    done = False
    for src, with_rt in ((SRC_NO_RT, False), (SRC_RT, True)):
        for n_ in (7, 31, 32, 33, 64, 1024):
            s_ = src.replace('array<vec4<f32>, 7>', f'array<vec4<f32>, {n_}>')
            for bits in range(16):
                opts = {'derive_bytemuck_vertex': bool(bits & 1), 'derive_bytemuck_host_shareable': bool(bits & 2),
                        'derive_encase_host_shareable': bool(bits & 4), 'derive_serde': bool(bits & 8)}
                rep, det = replay(ctx, s_, opts, bits % 3, with_rt)
                if rep and not done:
                    done = True
                    ctx.report('C09/native', f'options {opts}, array length {n_}: {det.get("failed") or det.get("real")}', det, True, det)
                elif not rep:
                    ctx.replayed_ok += 1

if __name__ == '__main__':
    sys.exit(main('C09', run, native))
