"""C20  Generation cost stays polynomial in shader size and call depth.

Measure: number of interpreted invocations of update_stages / update_stages_blocks / add_types_recursive per path
(deterministic: no clock, no hook).  Real code executed symbolically: global_shader_stages + callees, structs' closure
over variable types (add_types_recursive).
Symbolic shapes: (a) a chain of value-returning helpers where level i symbolically calls level i-1 (or not) and, for some
levels, also level i-2 or a shared leaf (diamonds / fan-in); (b) nested structs whose two members are symbolically a
scalar, the previous struct, or an array of it.  Oracle: invocations <= a LINEAR budget in the size of the shader.
The worst shape the solver-driven exploration finds is rebuilt at depth 24 and timed on the real build.
"""
import time
import z3
from harness.common import *


def chain_src(d, vals=None, void=False, pad=0, ptr=False, nested=False, pure=False):
    """helpers h1..hd (value-returning, or void when `void`); h_i = slot A (callee: marker | h_{i-1}) + slot B (marker | h_{i-2} | leaf);
    `pad` unrelated helpers are declared first, so the chain sits at function-arena indices >= pad (hundreds of functions);
    with `ptr` every function takes a `ptr<function, f32>` parameter that is threaded through all calls"""
    P = 'acc: ptr<function, f32>' if ptr else ''
    A = 'acc' if ptr else ''
    out = ['@group(0) @binding(0) var<storage, read_write> u: array<u32, 4>;'] if void else ['@group(0) @binding(0) var<uniform> u: vec4<f32>;']
    for k in range(pad):
        out.append(f'fn pad{k}() {{}}' if void else f'fn pad{k}() -> u32 {{ return {k}u; }}')
    out.append(f'fn leaf({P}) {{ u[0] = 1u; }}' if void else (f'fn leaf({P}) -> u32 {{ return 1u; }}' if pure else f'fn leaf({P}) -> u32 {{ return u32(u.x); }}'))
    for i in range(1, d + 1):
        out.append(f'fn ma{i}({P}) {{}}' if void else f'fn ma{i}({P}) -> u32 {{ return 0u; }}')
        out.append(f'fn mb{i}({P}) {{}}' if void else f'fn mb{i}({P}) -> u32 {{ return 0u; }}')
    for i in range(1, d + 1):
        a = (vals or {}).get(f'a{i}', f'ma{i}')
        b = (vals or {}).get(f'b{i}', f'mb{i}')
        if nested and not void:
            # every call of the helper sits inside control flow (no call at the top level of its body)
            out.append(f'fn h{i}({P}) -> u32 {{ var x = 0u; var y = 0u; if (u.x > 0.0) {{ x = {a}({A}); loop {{ y = {b}({A}); break; }} }} return x + y; }}')
        else:
            out.append(f'fn h{i}({P}) {{ {a}({A}); {b}({A}); }}' if void else f'fn h{i}({P}) -> u32 {{ let x = {a}({A}); let y = {b}({A}); return x + y; }}')
    top = (vals or {}).get('top', f'h{d}')
    decl = ('var acc0: f32 = 0.0; ' if ptr else '') + ('let touch = u.x; ' if pure and not void else '')        # pure helpers: only the entry touches the binding
    arg = '&acc0' if ptr else ''
    out.append(f'@compute @workgroup_size(1) fn main() {{ {decl}{top}({arg}); }}' if void else f'@compute @workgroup_size(1) fn main() {{ {decl}let r = {top}({arg}); }}')
    # a second entry point of another stage shares the whole chain (work must not multiply across entry points either)
    out.append(f'@fragment fn fmain() {{ {decl}{top}({arg}); }}' if void else f'@fragment fn fmain() {{ {decl}let r = {top}({arg}); }}')
    return '\n'.join(out) + '\n'


def ladder_src(d, vals=None):
    """diamonds through DISTINCT intermediate functions: f_i calls l_i and r_i, each of which calls f_{i-1} (or a marker)"""
    out = ['@group(0) @binding(0) var<storage, read_write> u: array<u32, 4>;', 'fn fn0() { u[0] = 1u; }']
    for i in range(1, d + 1):
        out += [f'fn ml{i}() {{}}', f'fn mr{i}() {{}}']
    for i in range(1, d + 1):
        cl = (vals or {}).get(f'l{i}', f'ml{i}')
        cr = (vals or {}).get(f'r{i}', f'mr{i}')
        out += [f'fn l{i}() {{ {cl}(); }}', f'fn r{i}() {{ {cr}(); }}', f'fn fn{i}() {{ l{i}(); r{i}(); }}']
    out.append(f'@compute @workgroup_size(1) fn main() {{ fn{d}(); }}')
    out.append(f'@fragment fn fmain() {{ fn{d}(); }}')
    return '\n'.join(out) + '\n'


def ladder_family(ctx, seen, d):
    S, c = ctx.S, ctx.S.conv
    src = ladder_src(d)
    dmp = S.dump(src)
    mj = dmp['module']
    fh = {f['name']: i for i, f in enumerate(mj['functions'])}
    module = c.module(dmp)
    funcs = c.get(module, 'functions').fields[0].items
    assume, terms = [], {}
    sym_levels = [d, d - 1, d - 3]
    for i in range(1, d + 1):
        for side in ('l', 'r'):
            t = z3.BitVec(f'{side}{i}', 32)
            terms[f'{side}{i}'] = t
            subst_callee(c, funcs[fh[f'{side}{i}']], fh[f'm{side}{i}'], t)
            if i in sym_levels:
                assume.append(z3.Or(t == fh[f'm{side}{i}'], t == fh[f'fn{i - 1}']))
            else:
                assume.append(t == fh[f'fn{i - 1}'])
    n_funcs, n_sites = len(mj['functions']), 4 * d + 2
    budget = 2 * (n_funcs + n_sites + 1)
    res = ctx.explore(f'global_shader_stages/ladder-depth-{d}', lambda it: it.call('global_shader_stages', [mkref(module)]), assume=assume,
                      env={'call_caps': {'update_stages': budget + 1}}, anchors=['global_shader_stages', 'update_stages'], timeout_s=1500, max_paths=20000)
    worst = 0
    for pc, kind, out, calls in res:
        n = calls.get('update_stages', 0)
        ctx.queries['discharged'] += 1
        if kind == 'panic':
            raise Inconclusive('stage walk panicked: ' + out)
        if kind == 'cost':
            n = budget + 1
        worst = max(worst, n)
        if n <= budget:
            ctx.queries['unsat'] += 1
            continue
        ctx.queries['sat'] += 1
        key = 'C20/call-graph-ladder'
        seen[key] = seen.get(key, 0) + 1
        if seen[key] > 1:
            continue
        D = 30
        big = ladder_src(D, {f'{sd}{i}': f'fn{i - 1}' for i in range(1, D + 1) for sd in ('l', 'r')})
        secs, okv = timed_gen(ctx, big, {})
        base, _ = timed_gen(ctx, ladder_src(D), {})
        det = {'wgsl': big, 'depth': D, 'lines': big.count('\n'), 'seconds': round(secs, 3), 'same_size_shader_without_calls_seconds': round(base, 3)}
        ctx.report(key, f'update_stages entered {">= " if kind == "cost" else ""}{n} times on a {n_funcs}-function / {n_sites}-call-site ladder (linear budget {budget})',
                   det, secs > max(1.0, 20 * base), det)
    ctx.extra['call_graph_ladder'] = {'paths': len(res), 'worst_update_stages_invocations': worst, 'budget': budget, 'functions': n_funcs}


def struct_src(d, vals=None):
    out = ['struct T0 { a: f32, b: f32 }']
    for i in range(1, d + 1):
        ma = (vals or {}).get(f'a{i}', 'f32')
        mb = (vals or {}).get(f'b{i}', 'f32')
        out.append(f'alias AR{i} = array<T{i - 1}, 2>;')
        out.append(f'struct T{i} {{ a: {ma}, b: {mb} }}')
    out.append(f'@group(0) @binding(0) var<storage, read> g: T{d};')
    out.append('@compute @workgroup_size(1) fn main() {}')
    return '\n'.join(out) + '\n'


def subst_callee(c, fn, marker, term):
    from harness.c03 import subst_calls
    n = subst_calls(c, c.get(fn, 'body'), marker, term)            # call statements at any nesting depth
    for e in c.get(fn, 'expressions').fields[0].items:
        if e.variant == 'CallResult' and e.fields[0] == marker:
            e.fields[0] = term
            n += 1
    if n not in (1, 2):
        raise Inconclusive('template/IR mismatch in chain template')


def run(ctx):
    S, c = ctx.S, ctx.S.conv
    quick = ctx.tier == 'quick'
    d = 7 if quick else 9
    ctx.bounds = {'call chain depth': d, 'parameter type of the helpers (value family)': 'f32 or ptr<function, f32> (symbolic)', 'unrelated functions declared before the chain': '0 and 70' if quick else '0, 70 and 300', 'struct nesting depth': d, 'ladder': 'f_i -> l_i, r_i -> f_(i-1): diamonds through distinct intermediate functions, 3 levels symbolic', 'shapes': 'per level: call of the previous level present/absent; on two (thorough: three) levels also a '
                  'call of level i-2 or of a shared leaf; per struct level each of two members is scalar / previous struct / array of it (symbolic on 3 levels, both = struct elsewhere)'}
    ctx.assumptions += ['cost measure = interpreted invocations of the recursive walkers, and (call-graph families) the total number of interpreted calls of crate functions on the path, capped at 6 x the linear budget (deterministic; the native replay shows the wall-clock effect)',
                        'budget: call graph walk <= entries * (functions + call sites + 1); type walk <= variables * (types + member edges + 1): linear in the size of the shader']
    seen = {}
    # ------------------------------------------------------------------ (a) call graphs
    families = [(False, 0, False, False), (True, 0, False, False), (False, 70, False, False), (False, 0, True, False), (False, 0, False, True)] \
        + ([] if quick else [(True, 70, False, False), (False, 300, False, False)])
    for void, pad, nested, pure in families:
        key_cg = 'C20/call-graph-' + ('void' if void else 'value') + (f'-after-{pad}-functions' if pad else '') + ('-calls-inside-control-flow' if nested else '') + ('-pure-helpers' if pure else '')
        sym_params = (not void and pad == 0 and not nested and not pure)        # in this family the TYPE of the helpers' parameter is symbolic: f32 or ptr<function, f32>
        src = chain_src(d, void=void, pad=pad, ptr=sym_params, nested=nested, pure=pure)
        dmp = S.dump(src)
        mj = dmp['module']
        fh = {f['name']: i for i, f in enumerate(mj['functions'])}
        module = c.module(dmp)
        funcs = c.get(module, 'functions').fields[0].items
        assume, terms = [], {}
        ptr_flag = z3.Bool('helpers_take_a_pointer')
        if sym_params:
            hptr = next(i for i, t in enumerate(mj['types']) if 'Pointer' in t['inner'])
            hf32_ = next(i for i, t in enumerate(mj['types']) if t['inner'].get('Scalar') == {'kind': 'Float', 'width': 4})
            for fj, fv in zip(mj['functions'], funcs):
                for av in c.get(fv, 'arguments').items:
                    c.set(av, 'ty', z3.If(ptr_flag, z3.BitVecVal(hptr, 32), z3.BitVecVal(hf32_, 32)))
        diamond_levels = [d, d - 2] if quick else [d, d - 2, d - 4]
        for i in range(1, d + 1):
            fn = funcs[fh[f'h{i}']]
            ta = z3.BitVec(f'a{i}', 32)
            terms[f'a{i}'] = ta
            subst_callee(c, fn, fh[f'ma{i}'], ta)
            assume.append(z3.Or([ta == fh[f'ma{i}']] + ([ta == fh[f'h{i - 1}']] if i > 1 else [ta == fh['leaf']])))
            tb = z3.BitVec(f'b{i}', 32)
            terms[f'b{i}'] = tb
            subst_callee(c, fn, fh[f'mb{i}'], tb)
            if i in diamond_levels and i > 2:
                assume.append(z3.Or(tb == fh[f'mb{i}'], tb == fh[f'h{i - 2}'], tb == fh['leaf']))
            elif i > 1:
                assume.append(tb == fh[f'h{i - 1}'])            # both call sites name the previous level: the doubling shape
            else:
                assume.append(tb == fh['leaf'])
        n_funcs, n_sites = len(mj['functions']) - pad, 2 * d + 2          # the unrelated helpers are never reached from an entry point
        budget = 2 * (n_funcs + n_sites + 1)
        res = ctx.explore(f'global_shader_stages/{"void" if void else "value"}-chain-depth-{d}' + (f'-after-{pad}-functions' if pad else '') + ('-nested' if nested else '') + ('-pure' if pure else ''), lambda it: it.call('global_shader_stages', [mkref(module)]), assume=assume,
                          env={'call_caps': {'update_stages': budget + 1, '*': 6 * budget}}, anchors=['global_shader_stages', 'update_stages', 'update_stages_blocks'], timeout_s=3000, max_paths=20000)
        worst = (0, None)
        for pc, kind, out, calls in res:
            n = calls.get('update_stages', 0)
            ctx.queries['discharged'] += 1
            if kind == 'panic':
                raise Inconclusive('stage walk panicked: ' + out)
            if kind == 'cost':
                n = budget + 1
            if n > worst[0]:
                worst = (n, pc)
            if n <= budget:
                ctx.queries['unsat'] += 1
                continue
            ctx.queries['sat'] += 1
            seen[key_cg] = seen.get(key_cg, 0) + 1
            if seen[key_cg] > 1:
                continue
            m = ctx.witness(pc)
            inv = {v: k for k, v in fh.items()}
            shape = {k: inv[model_value(m, t)] for k, t in terms.items()}
            rep, det = replay_chain(ctx, shape, d, void, pad, bool(sym_params and model_value(m, ptr_flag)), nested, pure)
            ctx.report(key_cg, f'update_stages entered {">= " if kind == "cost" else ""}{n} times on a {n_funcs}-function / {n_sites}-call-site shader (linear budget {budget}); shape {shape}',
                       det, rep, det)
        ctx.extra['call_graph_' + ('void' if void else 'value') + (f'_pad{pad}' if pad else '') + ('_nested' if nested else '') + ('_pure' if pure else '')] = {'paths': len(res), 'worst_update_stages_invocations': worst[0], 'budget': budget, 'functions': n_funcs, 'call_sites': n_sites}
        ctx.sample({'harness': 'chain', 'depth': d, 'worst invocations': worst[0], 'budget': budget})
        ctx.vacuity_witness('cost assertion reachable', res[0][0])
    ladder_family(ctx, seen, 6 if quick else 8)
    # ------------------------------------------------------------------ (b) type graphs
    src2 = struct_src(d)
    dmp2 = S.dump(src2)
    mj2 = dmp2['module']
    th = {t['name']: i for i, t in enumerate(mj2['types']) if t['name']}
    hf32 = next(i for i, t in enumerate(mj2['types']) if t['inner'].get('Scalar') == {'kind': 'Float', 'width': 4})
    module2 = c.module(dmp2)
    types = c.get(module2, 'types').fields[0].items
    assume2, terms2 = [], {}
    sym_levels = [d, d - 2, d - 4] if quick else [d, d - 1, d - 3, d - 5]
    for i in range(1, d + 1):
        ms = c.get(types[th[f'T{i}']], 'inner').fields[0].items
        for j, nm in enumerate(('a', 'b')):
            t = z3.BitVec(f'{nm}{i}', 32)
            terms2[f'{nm}{i}'] = t
            c.set(ms[j], 'ty', t)
            if i in sym_levels:
                assume2.append(z3.Or(t == hf32, t == th[f'T{i - 1}'], t == th[f'AR{i}']))
            else:
                assume2.append(t == (th[f'T{i - 1}'] if nm == 'a' else th[f'AR{i}']))
    n_types, n_edges = len(mj2['types']), 2 * d + d + 2
    budget2 = 1 * (n_types + n_edges + 1)

    def go2(it):
        from mirsym.values import HashSetV
        hs = HashSetV()
        g = c.get(module2, 'global_variables').fields[0].items[0]
        it.call('add_types_recursive', [mkref(hs), mkref(module2), c.get(g, 'ty')])
        return hs
    res2 = ctx.explore(f'add_types_recursive/nesting-depth-{d}', go2, assume=assume2, env={'call_caps': {'add_types_recursive': budget2 + 1}},
                       anchors=['add_types_recursive'], timeout_s=3000, max_paths=20000)
    worst2 = (0, None)
    for pc, kind, out, calls in res2:
        n = calls.get('add_types_recursive', 0)
        ctx.queries['discharged'] += 1
        if kind == 'panic':
            raise Inconclusive('type walk panicked: ' + out)
        if kind == 'cost':
            n = budget2 + 1
        if n > worst2[0]:
            worst2 = (n, pc)
        if n <= budget2:
            ctx.queries['unsat'] += 1
            continue
        ctx.queries['sat'] += 1
        seen['C20/type-graph'] = seen.get('C20/type-graph', 0) + 1
        if seen['C20/type-graph'] > 1:
            continue
        m = ctx.witness(pc)
        inv = {v: k for k, v in th.items()}
        inv[hf32] = 'f32'
        shape = {k: inv[model_value(m, t)] for k, t in terms2.items()}
        rep, det = replay_structs(ctx, shape, d)
        ctx.report('C20/type-graph', f'add_types_recursive entered {">= " if kind == "cost" else ""}{n} times on a shader with {n_types} types / {n_edges} member edges (linear budget {budget2})',
                   det, rep, det)
    ctx.extra['type_graph'] = {'paths': len(res2), 'worst_add_types_recursive_invocations': worst2[0], 'budget': budget2, 'types': n_types}
    ctx.sample({'harness': 'nested structs', 'depth': d, 'worst invocations': worst2[0], 'budget': budget2})
    # ------------------------------------------------------------------ native: the doubling shapes at depth 24 / 22 must be fast on the real build
    for name, (rep, det) in (('call-graph-value', replay_chain(ctx, None, d, False)), ('call-graph-void', replay_chain(ctx, None, d, True)),
                             ('call-graph-value-after-70-functions', replay_chain(ctx, None, d, False, 70)),
                             ('call-graph-value-pointer-parameters', replay_chain(ctx, None, d, False, 0, True)),
                             ('type-graph', replay_structs(ctx, None, d))):
        ctx.sample({'native': name, **{k: v for k, v in det.items() if k != 'wgsl'}})
        if rep:
            key = f'C20/{name}'
            if key not in seen:
                seen[key] = 1
                ctx.report(key, f'real build needs {det["seconds"]:.2f}s for a {det["lines"]}-line shader ({name} of depth {det["depth"]})', det, True, det)
        else:
            ctx.replayed_ok += 1
    ctx.differential(chain_src(4, {f'a{i}': (f'h{i - 1}' if i > 1 else 'leaf') for i in range(1, 5)}), {})
    ctx.extra['violations_by_rule'] = seen


def timed_gen(ctx, src, opts, limit=20):
    """real generator in a fresh helper process with a hard timeout"""
    import subprocess, json
    from mirsym.oracle import BIN
    t0 = time.time()
    try:
        p = subprocess.run([BIN], input=json.dumps({'cmd': 'gen', 'wgsl': src, 'options': opts}) + '\n', capture_output=True, text=True, timeout=limit)
        okv = '"ok"' in p.stdout[:20]
    except subprocess.TimeoutExpired:
        return limit, False
    return time.time() - t0, okv


def replay_chain(ctx, shape, d, void=False, pad=0, ptr=False, nested=False, pure=False):
    """the witness shape generalised to depth 24 (every level calls the previous one from both call sites)"""
    D = 30 if pure else 24
    vals = {}
    for i in range(1, D + 1):
        vals[f'a{i}'] = f'h{i - 1}' if i > 1 else 'leaf'
        vals[f'b{i}'] = f'h{i - 1}' if i > 1 else 'leaf'
    src = chain_src(D, vals, void, pad, ptr, nested, pure)
    secs, okv = timed_gen(ctx, src, {})
    base, _ = timed_gen(ctx, chain_src(D, None, void, pad, ptr, nested, pure), {})
    det = {'wgsl': src, 'depth': D, 'lines': src.count('\n'), 'seconds': round(secs, 3), 'same_size_shader_without_calls_seconds': round(base, 3), 'generated': okv}
    return secs > max(1.0, 20 * base), det


def replay_structs(ctx, shape, d):
    D = 26
    vals = {}
    for i in range(1, D + 1):
        vals[f'a{i}'] = f'T{i - 1}'
        vals[f'b{i}'] = f'T{i - 1}'          # two members of the previous struct: size doubles per level (arrays would overflow u32 at this depth)
    src = struct_src(D, vals)
    secs, okv = timed_gen(ctx, src, {})
    base, _ = timed_gen(ctx, struct_src(D), {})
    det = {'wgsl': src, 'depth': D, 'lines': src.count('\n'), 'seconds': round(secs, 3), 'same_size_shader_without_nesting_seconds': round(base, 3), 'generated': okv}
    return secs > max(1.0, 20 * base), det


if __name__ == '__main__':
    sys.exit(main('C20', run))
