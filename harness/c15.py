"""C15  Module constants are exported with the WGSL type and exact value.

Real code executed symbolically: consts (+ closure).  Symbolic: one constant's name presence, whether its initialiser is
a literal, the literal variant and ALL bit patterns of its payload (floats assumed finite: constant evaluation guarantees
it; a non-finite payload makes the generator panic and is reported as a refusal).
"""
import struct
import z3
from harness.common import *

RUST_TY = {'F64': 'f64', 'F32': 'f32', 'U32': 'u32', 'I32': 'i32', 'U64': 'u64', 'I64': 'i64', 'Bool': 'bool',
           'AbstractInt': 'i64', 'AbstractFloat': 'f64'}
CONCRETE = ['F64', 'F32', 'U32', 'I32', 'U64', 'I64', 'Bool']


TYPE_ALIASES = ['f32', 'i32', 'u32', 'bool', 'f64', 'vec3<f32>', 'vec2<u32>', 'mat2x2<f32>', 'array<f32, 2>', 'vec4<bool>']


def template():
    al = ''.join(f'alias T{i} = {t};\n' for i, t in enumerate(TYPE_ALIASES))
    return al + 'const BEFORE: u32 = 7u;\nconst HOLE: f32 = 1.0;\nconst AFTER: i32 = -3;\n@fragment fn main() {}\n'


CNAME = SymStr([('sym', 'CONSTANT_NAME')])       # the NAME of the constant under test is an abstract string


def decode_consts(toks):
    """[(name, type text, literal token list)] of the top-level `pub const` items (SOURCE / ENTRY_* excluded)"""
    out = []
    for it in T.items(toks):
        if it.kind == 'const' and it.name not in ('SOURCE',) and not (isinstance(it.name, str) and it.name.startswith('ENTRY_')):
            ty, val = T.const_parts(it)
            out.append((it.name, T.text(ty), val, it.vis))
    return out


def parse_lit(text):
    """'1.5f32' / '-3i32' / 'true' -> (suffix, python value)"""
    import re
    m = re.match(r'^(-?[0-9][0-9_.eE+-]*?)(f32|f64|u32|i32|u64|i64|usize)?$', text)
    if not m:
        return None, text
    sfx = m.group(2)
    if sfx in ('f32', 'f64') or '.' in m.group(1) or 'e' in m.group(1).lower():
        return sfx, float(m.group(1))
    return sfx, int(m.group(1))


def bits_of(kind, v):
    if kind == 'f32':
        return struct.unpack('<I', struct.pack('<f', v))[0]
    if kind == 'f64':
        return struct.unpack('<Q', struct.pack('<d', v))[0]
    w = int(kind[1:])
    return v & ((1 << w) - 1)


def wgsl_const(variant, bits):
    """WGSL text of a constant of the given literal variant whose value has exactly these bits"""
    if variant == 'F32':
        v = struct.unpack('<f', struct.pack('<I', bits))[0]
        return f'const HOLE: f32 = {float(v).hex()}f;' if v == v and abs(v) != float('inf') else None
    if variant == 'F64':
        v = struct.unpack('<d', struct.pack('<Q', bits))[0]
        return f'const HOLE: f64 = {float(v).hex()}lf;' if v == v and abs(v) != float('inf') else None
    if variant == 'U32':
        return f'const HOLE: u32 = {bits}u;'
    if variant == 'I32':
        v = bits - (1 << 32) if bits >= 1 << 31 else bits
        return f'const HOLE: i32 = {v};' if v != -(1 << 31) else 'const HOLE: i32 = -2147483647 - 1;'
    if variant == 'U64':
        return f'const HOLE: u64 = {bits}lu;'
    if variant == 'I64':
        v = bits - (1 << 64) if bits >= 1 << 63 else bits
        return f'const HOLE: i64 = {v}li;' if v != -(1 << 63) else 'const HOLE: i64 = -9223372036854775807li - 1li;'
    if variant == 'Bool':
        return f'const HOLE: bool = {"true" if bits else "false"};'
    return None


def run(ctx):
    S, c = ctx.S, ctx.S.conv
    src = template()
    module = S.module(src)
    L = {v['name']: v['disc'] for v in S.schema['enums']['Literal']}
    X = {v['name']: v['disc'] for v in S.schema['enums']['Expression']}
    consts = c.get(module, 'constants').fields[0].items
    gex = c.get(module, 'global_expressions').fields[0].items
    hole = consts[1]
    init = c.get(hole, 'init')
    named = z3.Bool('named')
    edisc = z3.BitVec('expr_kind', 64)
    ldisc = z3.BitVec('literal_variant', 64)
    f64p, f32p = z3.FP('f64_payload', z3.Float64()), z3.FP('f32_payload', z3.Float32())
    af = z3.FP('abstract_float_payload', z3.Float64())
    u32p, i32p = z3.BitVec('u32_payload', 32), z3.BitVec('i32_payload', 32)
    u64p, i64p, ai = z3.BitVec('u64_payload', 64), z3.BitVec('i64_payload', 64), z3.BitVec('abstract_int_payload', 64)
    bp = z3.Bool('bool_payload')
    payload = {'F64': f64p, 'F32': f32p, 'U32': u32p, 'I32': i32p, 'U64': u64p, 'I64': i64p, 'Bool': bp, 'AbstractInt': ai,
               'AbstractFloat': af}
    lit = c.sym_enum('Literal', ldisc, {k: [v] for k, v in payload.items()})
    others = ['Constant', 'Compose', 'Splat', 'Binary']
    zty = z3.BitVec('zero_value_type', 32)
    mj = S.dump(src)['module']
    n_types = len(mj['types'])
    gex[init] = c.sym_enum('Expression', edisc, dict({'Literal': [lit], 'ZeroValue': [zty]}, **{o: [Opaque(o)] * 3 for o in others}))
    c.set(hole, 'name', Agg('Option', {'Some': [CNAME], 'None': []}, disc=z3.If(named, z3.BitVecVal(1, 64), z3.BitVecVal(0, 64))))
    finite = z3.And(z3.Not(z3.fpIsNaN(f64p)), z3.Not(z3.fpIsInf(f64p)), z3.Not(z3.fpIsNaN(f32p)), z3.Not(z3.fpIsInf(f32p)),
                    z3.Not(z3.fpIsNaN(af)), z3.Not(z3.fpIsInf(af)))
    assume = [z3.Or(edisc == X['Literal'], edisc == X['ZeroValue'], *[edisc == X[o] for o in others]), z3.ULT(ldisc, len(L)), z3.ULT(zty, n_types)]
    is_zero = edisc == X['ZeroValue']
    # per type handle: the Rust type a zero value of that type must be exported with (None = not a scalar: must be skipped)
    ZERO_TY = {}
    for h_, t_ in enumerate(mj['types']):
        sc = t_['inner'].get('Scalar')
        ZERO_TY[h_] = {('Float', 4): 'f32', ('Float', 8): 'f64', ('Sint', 4): 'i32', ('Uint', 4): 'u32', ('Bool', 1): 'bool',
                       ('Sint', 8): 'i64', ('Uint', 8): 'u64'}.get((sc['kind'], sc['width'])) if sc else None
    ctx.assumptions += ['float payloads finite (WGSL constant evaluation never yields NaN/inf); non-finite payloads are explored '
                        'separately and must only ever panic, never emit',
                        'the decimal text proc_macro2 gives a numeric literal round-trips through rustc (Display of Rust numbers is '
                        'shortest-round-trip); exercised natively per run on solver-chosen and extreme payloads',
                        'abstract literal variants cannot reach a named module constant (the front end concretises them); they are '
                        'explored but not part of the assertion']
    ctx.bounds = {'constants': '1 symbolic between 2 concrete neighbours (constants are translated independently)',
                  'payload': 'all bit patterns of f32/f64 (finite), u32, i32, u64, i64, bool'}
    res = ctx.explore('consts/any-literal', lambda it: it.call('consts', [mkref(module)]), assume=assume, anchors=['consts', 'consts::{closure#0}'])
    is_lit = edisc == X['Literal']
    seen = {}
    for pc, kind, out, _ in res:
        if kind == 'panic':
            # only non-finite floats may panic
            m = ctx.check(pc, finite)
            if m is not None:
                ctx.report('C15/panic', f'consts panics on a finite payload: {out}', {'model': str(m)[:300]}, False)
            continue
        items = [decode_consts(ts.toks) for ts in out.items]
        flat = [x for it_ in items for x in it_]
        names = [x[0] for x in flat]
        if names[:1] != ['BEFORE'] or names[-1:] != ['AFTER']:
            ctx.report('C15/neighbours', f'neighbouring constants disturbed: {names}', {'wgsl': src}, False)
            continue
        mid = flat[1:-1]
        # which variant is this path?  (the path condition fixes it)
        emitted = len(mid) == 1
        zero_scalar = z3.Or([zty == h_ for h_, t_ in ZERO_TY.items() if t_ is not None])
        conds = [z3.BoolVal(emitted) == z3.And(named, z3.Or(is_lit, z3.And(is_zero, zero_scalar)))]
        if emitted:
            name, ty, val, vis = mid[0]
            ok_shape = name == CNAME and vis and len(val) == 1 and (val[0].k in ('lit', 'ident'))
            if not ok_shape:
                conds.append(z3.BoolVal(False))
            else:
                per_variant = []
                for vname in CONCRETE:
                    want_ty = RUST_TY[vname]
                    p = payload[vname]
                    if val[0].k == 'ident':
                        good = z3.And(z3.BoolVal(want_ty == 'bool' and ty == 'bool'), p == z3.BoolVal(val[0].v == 'true')) if vname == 'Bool' else z3.BoolVal(False)
                    else:
                        lk, lv = val[0].v
                        if vname == 'Bool' or lk != want_ty or ty != want_ty:
                            good = z3.BoolVal(False)
                        elif vname in ('F64', 'F32'):
                            good = z3.fpToIEEEBV(lv) == z3.fpToIEEEBV(p) if is_sym(lv) else z3.BoolVal(False)
                        else:
                            good = (lv == p) if is_sym(lv) else z3.BoolVal(False)
                    per_variant.append(z3.Implies(z3.And(is_lit, ldisc == L[vname]), good))
                # zero values: `const Z = i32();` is a scalar constant whose value is zero
                for h_, rt in ZERO_TY.items():
                    if rt is None:
                        continue
                    if val[0].k == 'ident':
                        goodz = z3.BoolVal(rt == 'bool' and ty == 'bool' and val[0].v == 'false')
                    else:
                        lk, lv = val[0].v
                        zero_ok = (not is_sym(lv)) and lv == 0 and isinstance(lv, (int, float)) and not (isinstance(lv, float) and str(lv).startswith('-'))
                        goodz = z3.BoolVal(rt != 'bool' and lk == rt and ty == rt and bool(zero_ok))
                    per_variant.append(z3.Implies(z3.And(is_zero, zty == h_), goodz))
                conds.append(z3.And(per_variant))
        concrete_variant = z3.Or([ldisc == L[v] for v in CONCRETE])
        bad = z3.And(z3.Implies(is_lit, concrete_variant), finite, z3.Not(z3.And(conds)))
        m = ctx.check(pc, bad)
        if m is None:
            continue
        lv = model_value(m, ldisc)
        vname = next(k for k, v in L.items() if v == lv)
        if z3.is_true(m.eval(is_zero, model_completion=True)):
            zt = model_value(m, zty)
            spelled = wgsl_of_type(mj, zt)
            key = f'C15/zero-value/{spelled}'
            seen[key] = seen.get(key, 0) + 1
            if seen[key] > 1:
                continue
            rep, detail = replay_zero(ctx, spelled, ZERO_TY.get(zt), model_value(m, named), concrete_name(m, CNAME, 'HOLE'))
            ctx.report(key, f'named constant `const {concrete_name(m, CNAME, "HOLE")} = {spelled}();`: emitted `{" | ".join(T.text(T.items(ts.toks)[0].toks) for ts in out.items[1:-1]) or "nothing"}`',
                       detail, rep, detail)
            continue
        key = f'C15/{vname}'
        seen[key] = seen.get(key, 0) + 1
        if seen[key] > 1:
            continue
        rep, detail = replay(ctx, m, vname, payload, named, is_lit, concrete_name(m, CNAME, 'HOLE'))
        ctx.report(key, f'constant of literal variant {vname}: emitted `{" | ".join(T.text(T.items(ts.toks)[0].toks) for ts in out.items[1:-1])}`',
                   detail, rep, detail)
    oks = [r for r in res if r[1] == 'ok']
    ctx.vacuity_witness('consts assertion reachable', oks[0][0])
    native(ctx)
    ctx.differential(src, {})
    ctx.extra['violations_by_variant'] = seen


def wgsl_of_type(mj, h):
    t = mj['types'][h]
    inner = t['inner']
    sc = inner.get('Scalar')
    names = {('Float', 4): 'f32', ('Float', 8): 'f64', ('Sint', 4): 'i32', ('Uint', 4): 'u32', ('Bool', 1): 'bool'}
    if sc:
        return names.get((sc['kind'], sc['width']))
    if 'Vector' in inner:
        v = inner['Vector']
        return f"vec{ {'Bi': 2, 'Tri': 3, 'Quad': 4}[v['size']] }<{names[(v['scalar']['kind'], v['scalar']['width'])]}>"
    if 'Matrix' in inner:
        m_ = inner['Matrix']
        n = {'Bi': 2, 'Tri': 3, 'Quad': 4}
        return f"mat{n[m_['columns']]}x{n[m_['rows']]}<f32>"
    if 'Array' in inner:
        return 'array<f32, 2>'
    return None


def replay_zero(ctx, spelled, rust_ty, named, cname='HOLE'):
    if spelled is None or not named:
        return False, {'note': 'no WGSL spelling'}
    src = f'const BEFORE: u32 = 7u;\nconst {cname} = {spelled}();\nconst AFTER: i32 = -3;\n@fragment fn main() {{}}\n'
    kind, toks, _ = ctx.gen_tokens(src, {})
    det = {'wgsl': src, 'expected': f'pub const {cname}: {rust_ty} = 0;' if rust_ty else 'not exported (not a scalar)'}
    if kind != 'ok':
        det['real'] = f'{kind}: {toks}'
        return kind == 'panic', det
    cs = [x for x in decode_consts(toks) if x[0] == cname]
    det['real'] = [f'pub const {cname}: {x[1]} = {T.text(x[2])};' for x in cs] or 'not exported'
    if rust_ty is None:
        return len(cs) != 0, det
    if len(cs) != 1 or cs[0][1] != rust_ty:
        return True, det
    txt = ''.join(T.text([t]) for t in cs[0][2]).replace(' ', '')
    if rust_ty == 'bool':
        return txt != 'false', det
    sfx, v = parse_lit(txt)
    return not (sfx == rust_ty and v == 0), det


MODULES = [
    # whole modules whose every named scalar constant must be exported under its own name with its own type and value, whatever the
    # other constants are (aliases of another constant, folded expressions, non-scalar constants before / between scalar ones)
    ('const MAX_LIGHTS = 16u;\nconst LIGHT_CAPACITY = MAX_LIGHTS;\nconst TWICE = MAX_LIGHTS * 2u;\n@fragment fn main() {}\n',
     {'MAX_LIGHTS': ('u32', 16), 'LIGHT_CAPACITY': ('u32', 16), 'TWICE': ('u32', 32)}),
    ('const DIR = vec3<f32>(0.0, 1.0, 0.0);\nconst SCALE: f32 = 2.5;\nconst OFFS = array<f32, 2>(1.0, 2.0);\nconst COUNT: i32 = -3;\nconst M = mat2x2<f32>(1.0, 0.0, 0.0, 1.0);\n'
     'const ON: bool = true;\n@fragment fn main() {}\n', {'SCALE': ('f32', 2.5), 'COUNT': ('i32', -3), 'ON': ('bool', True)}),
    ('const A: i32 = 3;\nconst B = A;\nconst C = B;\nconst Z = i32();\nconst Y = Z;\n@compute @workgroup_size(1) fn main() {}\n',
     {'A': ('i32', 3), 'B': ('i32', 3), 'C': ('i32', 3), 'Z': ('i32', 0), 'Y': ('i32', 0)}),
]


def native_modules(ctx):
    for src, want in MODULES:
        kind, toks, _ = ctx.gen_tokens(src, {})
        got = {}
        if kind == 'ok':
            for name, ty, val, vis in decode_consts(toks):
                txt = ''.join(T.text([t]) for t in val).replace(' ', '')
                got[name] = (ty, (txt == 'true') if ty == 'bool' else parse_lit(txt)[1])
        if kind != 'ok' or got != want:
            return True, {'wgsl': src, 'expected': {k: list(v) for k, v in want.items()}, 'real': {k: list(v) for k, v in got.items()} if kind == 'ok' else f'{kind}: {toks}'}
        ctx.replayed_ok += 1
    return False, {}


def native(ctx):
    """literal text round trip on extreme and VERIF_SEED-chosen payloads through the real build"""
    rep, det = native_modules(ctx)
    if rep:
        ctx.report('C15/native-modules', f'a module\'s scalar constants are not exported one for one: expected {det["expected"]}, real {det["real"]}', det, True, det)
    extremes = {
        'F32': [0x00000000, 0x80000000, 0x00000001, 0x7f7fffff, 0xff7fffff, 0x3f800001, 0x00800000, 0x3dcccccd, 0x34000000, 0x5f800000, 0x007fffff],
        'F64': [0x0, 0x8000000000000000, 0x1, 0x7fefffffffffffff, 0xffefffffffffffff, 0x3ff0000000000001, 0x3fb999999999999a, 0x0010000000000000,
                0x3e112e0be826d695, 0x43f0000000000000],
        'U32': [0, 1, 0xffffffff], 'I32': [0, 0x7fffffff, 0x80000000, 0xffffffff],
        'U64': [0, 0xffffffffffffffff], 'I64': [0x7fffffffffffffff, 0x8000000000000000, 0xffffffffffffffff], 'Bool': [0, 1]}
    nrand = 12 if ctx.tier == 'quick' else 200
    for _ in range(nrand):
        b = ctx.rng.getrandbits(32)
        if (b >> 23) & 0xff != 0xff:
            extremes['F32'].append(b)
        b = ctx.rng.getrandbits(64)
        if (b >> 52) & 0x7ff != 0x7ff:
            extremes['F64'].append(b)
    n, reported = 0, set()
    for vname, lst in extremes.items():
        for bits in lst:
            ok_, det = native_const(ctx, vname, bits)
            if ok_ is None:
                continue
            n += 1
            if not ok_:
                if vname not in reported:
                    reported.add(vname)
                    ctx.report(f'C15/native/{vname}', f'constant does not round-trip: {det.get("real")} for payload bits {det.get("payload_bits")}', det, True, det)
            else:
                ctx.replayed_ok += 1
    ctx.sample({'payloads replayed natively (extremes + seeded random)': n})
    rust = {'f32': 'f32', 'i32': 'i32', 'u32': 'u32', 'bool': 'bool', 'f64': 'f64'}
    for t in TYPE_ALIASES:
        rep, det = replay_zero(ctx, t, rust.get(t), True)
        if rep:
            ctx.report(f'C15/zero-value/{t}', f'`const HOLE = {t}();` is exported as {det.get("real")}, expected {det.get("expected")}', det, True, det)
        else:
            ctx.replayed_ok += 1


def native_const(ctx, vname, bits, cname='HOLE'):
    line = wgsl_const(vname, bits)
    if line is None:
        return None, None
    line = line.replace('const HOLE', f'const {cname}')
    src = f'const BEFORE: u32 = 7u;\n{line}\nconst AFTER: i32 = -3;\n@fragment fn main() {{}}\n'
    kind, toks, _ = ctx.gen_tokens(src, {})
    det = {'wgsl': src, 'variant': vname, 'payload_bits': hex(bits)}
    if kind != 'ok':
        det['real'] = f'{kind}: {toks}'
        return (None, None) if kind == 'err' else (False, det)
    cs = [x for x in decode_consts(toks) if x[0] == cname]
    if len(cs) != 1:
        det['real'] = f'{cname} not emitted'
        return False, det
    name, ty, val, vis = cs[0]
    det['real'] = f'pub const HOLE: {ty} = {T.text(val)};'
    want = RUST_TY[vname]
    if ty != want:
        return False, det
    if want == 'bool':
        return (len(val) == 1 and T.is_i(val[0]) and val[0].v == ('true' if bits else 'false')), det
    txt = ''.join(T.text([t]) for t in val)
    sfx, v = parse_lit(txt.replace(' ', ''))
    if sfx != want:
        return False, det
    if want.startswith('u') and isinstance(v, int) and v < 0:
        return False, det                 # a negated literal is not a value of an unsigned type (it does not even compile)
    try:
        return bits_of(want, v) == bits, det
    except Exception:
        return False, det


def replay(ctx, m, vname, payload, named, is_lit, cname='HOLE'):
    if not model_value(m, named) or not z3.is_true(m.eval(is_lit, model_completion=True)):
        return False, {'note': 'counterexample concerns an unnamed / non-literal constant; no WGSL spelling'}
    p = payload[vname]
    v = m.eval(p, model_completion=True)
    if vname in ('F64', 'F32'):
        bits = z3.simplify(z3.fpToIEEEBV(v)).as_long()
    elif vname == 'Bool':
        bits = 1 if z3.is_true(v) else 0
    else:
        bits = v.as_long()
    ok_, det = native_const(ctx, vname, bits, cname)
    if ok_ is None:
        return False, det
    return (not ok_), det


if __name__ == '__main__':
    sys.exit(main('C15', run, native))
