"""C02  Bind group layouts pass wgpu's shader-interface validation.

Real code executed symbolically: bind_group_layout_entry (+ buffer_binding_type, storage_access, quote_shader_stages).
Symbolic: one binding of ANY resource type WGSL can declare (type class, address space and access bits, texture dimension /
arrayness / class / sample kind / multisampling, all storage formats and access modes, sampler comparison), binding index
any u32, stage mask any of the 8 sets.  Oracle: transcription of wgpu-core 24.0.5 check_binding_use + the per-entry rules
of create_bind_group_layout.  Counterexamples are rebuilt as WGSL and replayed through the real create_shader_module.
"""
import z3
from harness.common import *
from harness import wgpu_rules as W
from harness.decoders import decode_bgl_entry
from mirsym.schema import mkflags

ANCHORS = ['bind_group_layout_entry', 'buffer_binding_type', 'storage_access', 'quote_shader_stages']

BUFFER_KINDS = ['Scalar', 'Vector', 'Matrix', 'Array', 'Struct']


class Holes:
    def __init__(self, ctx):
        E = ctx.S.schema['enums']
        self.E = E
        self.binding = z3.BitVec('binding', 32)
        self.tdisc = z3.BitVec('type_inner', 64)
        self.space = z3.BitVec('address_space', 64)
        self.baccess = z3.BitVec('buffer_access', 32)
        self.dim = z3.BitVec('dim', 64)
        self.arrayed = z3.Bool('arrayed')
        self.cdisc = z3.BitVec('image_class', 64)
        self.kind = z3.BitVec('sample_kind', 64)
        self.smulti = z3.Bool('sampled_multi')
        self.dmulti = z3.Bool('depth_multi')
        self.fmt = z3.BitVec('storage_format', 64)
        self.taccess = z3.BitVec('texture_access', 32)
        self.comparison = z3.Bool('comparison')
        self.stages = z3.BitVec('stages', 32)
        self.D = {e: {v['name']: v['disc'] for v in E[e]} for e in
                  ('TypeInner', 'AddressSpace', 'ImageDimension', 'ImageClass', 'ScalarKind', 'StorageFormat')}

    def vars(self):
        return [self.binding, self.tdisc, self.space, self.baccess, self.dim, self.arrayed, self.cdisc, self.kind, self.smulti,
                self.dmulti, self.fmt, self.taccess, self.comparison, self.stages]

    def is_buffer(self):
        T_ = self.D['TypeInner']
        return z3.Or([self.tdisc == T_[k] for k in BUFFER_KINDS])

    def assumption(self):
        """what WGSL can declare as a resource variable (validity predicate of the holes)"""
        D = self.D
        T_, A, Dm, C, K = D['TypeInner'], D['AddressSpace'], D['ImageDimension'], D['ImageClass'], D['ScalarKind']
        is_img, is_smp = self.tdisc == T_['Image'], self.tdisc == T_['Sampler']
        extra = [T_['Atomic'], T_['BindingArray'], T_['AccelerationStructure']]       # explored to see what the generator does
        multi_ok = z3.And(self.dim == Dm['D2'], z3.Not(self.arrayed))
        return z3.And(
            z3.Or(self.is_buffer(), is_img, is_smp, *[self.tdisc == x for x in extra]),
            z3.Implies(z3.Or(is_img, is_smp), self.space == A['Handle']),
            z3.Implies(z3.Not(z3.Or(is_img, is_smp)),
                       z3.Or(self.space == A['Uniform'],
                             z3.And(self.space == A['Storage'], z3.Or(self.baccess == 1, self.baccess == 3)))),
            z3.ULT(self.dim, 4), z3.ULT(self.cdisc, 3),
            z3.Or(self.kind == K['Sint'], self.kind == K['Uint'], self.kind == K['Float']),
            z3.ULT(self.fmt, len(self.E['StorageFormat'])),
            z3.Or(self.taccess == 1, self.taccess == 2, self.taccess == 3, self.taccess == 7),
            z3.ULT(self.stages, 8),
            z3.Implies(self.arrayed, z3.Or(self.dim == Dm['D2'], self.dim == Dm['Cube'])),
            z3.Implies(z3.And(self.cdisc == C['Sampled'], self.smulti), multi_ok),
            z3.Implies(z3.And(self.cdisc == C['Depth'], self.dmulti), multi_ok),
            z3.Implies(self.cdisc == C['Depth'], z3.Or(self.dim == Dm['D2'], self.dim == Dm['Cube'])),
            z3.Implies(self.cdisc == C['Storage'], z3.And(self.dim != Dm['Cube'], z3.Implies(self.arrayed, self.dim == Dm['D2']))),
        )

    def value(self, ctx):
        """the GroupBinding handed to the real code"""
        c = ctx.S.conv
        scal = Agg('Scalar', [Agg('ScalarKind', [], disc=self.kind), 4])
        iclass = c.sym_enum('ImageClass', self.cdisc, {
            'Sampled': [Agg('ScalarKind', [], disc=self.kind), self.smulti], 'Depth': [self.dmulti],
            'Storage': [Agg('StorageFormat', [], disc=self.fmt), mkflags('StorageAccess', self.taccess)]})
        inner = c.sym_enum('TypeInner', self.tdisc, {
            'Scalar': [Opaque('scalar')], 'Vector': [Opaque('size'), Opaque('scalar')],
            'Matrix': [Opaque('c'), Opaque('r'), Opaque('s')], 'Atomic': [Opaque('scalar')],
            'Array': [Opaque('base'), Opaque('size'), Opaque('stride')], 'Struct': [Opaque('members'), Opaque('span')],
            'Image': [Agg('ImageDimension', [], disc=self.dim), self.arrayed, iclass], 'Sampler': [self.comparison],
            'BindingArray': [Opaque('base'), Opaque('size')], 'AccelerationStructure': []})
        ty = Agg('Type', [none(), inner])
        space = c.sym_enum('AddressSpace', self.space, {'Storage': [mkflags('StorageAccess', self.baccess)]})
        vals = {'name': some('res'), 'binding_index': self.binding, 'binding_type': mkref(ty), 'address_space': space}
        order = ctx.S.local_structs.get('GroupBinding')
        if order is None or set(order) != set(vals):
            raise Inconclusive(f'GroupBinding fields changed: {order}')
        return Agg('GroupBinding', [vals[k] for k in order])


def rules(h, d, concrete=None):
    """negation-ready list of (name, z3 Bool that must hold) for decoded entry d against the symbolic naga type.
    Transcribes wgpu-core 24.0.5 validation.rs:394-565 and device/resource.rs:1711-1860 (features granted)."""
    D = h.D
    T_, A, Dm, C, K = D['TypeInner'], D['AddressSpace'], D['ImageDimension'], D['ImageClass'], D['ScalarKind']
    ty = d['ty']
    B = z3.BoolVal
    out = []
    bl = d['binding']
    out.append(('binding index', (bl == z3.ZeroExt(32, h.binding)) if is_sym(bl) else (z3.ZeroExt(32, h.binding) == z3.BitVecVal(bl, 64))))
    out.append(('count is None', B(d['count'] == 'None')))
    out.append(('visibility', h.stages == d['visibility']))
    is_img, is_smp = h.tdisc == T_['Image'], h.tdisc == T_['Sampler']
    # ---- check_binding_use
    if ty['kind'] == 'Buffer':
        out.append(('shader resource is a buffer', h.is_buffer()))
        bk, ro = ty['buffer']
        if bk == 'Uniform':
            out.append(('address space', h.space == A['Uniform']))
        else:
            want = 1 | (0 if ro else 2)
            out.append(('address space', z3.And(h.space == A['Storage'], h.baccess == want)))
    elif ty['kind'] == 'Sampler':
        out.append(('shader resource is a sampler', is_smp))
        out.append(('sampler comparison', h.comparison == B(ty['sampler'] == 'Comparison')))
    elif ty['kind'] in ('Texture', 'StorageTexture'):
        out.append(('shader resource is a texture', is_img))
        vd = ty['view_dimension']
        dims = [z3.And(h.dim == Dm[dm], h.arrayed == B(arr)) for (dm, arr), v in W.VIEW_DIM.items() if v == vd]
        out.append(('view dimension', z3.Or(dims) if dims else B(False)))
        if ty['kind'] == 'Texture':
            sk, filt = ty['sample_type']
            multi = B(ty['multisampled'])
            if sk == 'Depth':
                out.append(('texture class', z3.And(h.cdisc == C['Depth'], h.dmulti == multi)))
            else:
                out.append(('texture class', z3.And(h.cdisc == C['Sampled'], h.kind == K[sk], h.smulti == multi)))
            # create_bind_group_layout entry rules
            out.append(('multisampled float must not be filterable', B(not (ty['multisampled'] and sk == 'Float' and filt))))
            out.append(('multisampled must be D2', B(not ty['multisampled'] or vd == 'D2')))
        else:
            sf = W.tf_to_sf().get(ty['format'])
            acc = {'ReadOnly': 1, 'WriteOnly': 2, 'ReadWrite': 3, 'Atomic': 7}.get(ty['access'])
            if sf is None or acc is None:
                out.append(('storage format/access known to wgpu', B(False)))
            else:
                out.append(('texture class', z3.And(h.cdisc == C['Storage'], h.fmt == D['StorageFormat'][sf], h.taccess == acc)))
            out.append(('storage texture is not cube', B(vd not in ('Cube', 'CubeArray'))))
    else:
        out.append(('known binding type', B(False)))
    return out


KNOWN_PRED = {
    # multisampled float texture is emitted as filterable (pinned by the repository's own snapshot, see DESIGN.md §6)
    'C02/multisampled-float-filterable':
        lambda h: z3.And(h.tdisc == h.D['TypeInner']['Image'], h.cdisc == h.D['ImageClass']['Sampled'],
                         h.kind == h.D['ScalarKind']['Float'], h.smulti),
}


# ------------------------------------------------------------------------------------------------ WGSL from a model
def wgsl_of(ctx, h, m):
    """declaration of the resource described by model m"""
    D = h.D
    inv = {e: {v: k for k, v in D[e].items()} for e in D}
    g = lambda t: model_value(m, t)
    t = inv['TypeInner'].get(g(h.tdisc))
    binding = g(h.binding)
    if t in BUFFER_KINDS or t == 'Atomic':
        body = {'Scalar': 'f32', 'Vector': 'vec4<f32>', 'Matrix': 'mat4x4<f32>', 'Array': 'array<vec4<f32>, 4>',
                'Struct': 'S', 'Atomic': 'atomic<u32>'}[t]
        sp = inv['AddressSpace'][g(h.space)]
        if sp == 'Uniform':
            decl = f'var<uniform> res: {body};'
        else:
            decl = f'var<storage, {"read" if g(h.baccess) == 1 else "read_write"}> res: {body};'
        pre = 'struct S { a: vec4<f32> }\n' if t == 'Struct' else ''
        return f'{pre}@group(0) @binding({binding}) {decl}\n'
    if t == 'Sampler':
        return f'@group(0) @binding({binding}) var res: {"sampler_comparison" if g(h.comparison) else "sampler"};\n'
    if t == 'Image':
        dim, arr = inv['ImageDimension'][g(h.dim)], g(h.arrayed)
        dn = {'D1': '1d', 'D2': '2d', 'D3': '3d', 'Cube': 'cube'}[dim] + ('_array' if arr else '')
        cl = inv['ImageClass'][g(h.cdisc)]
        if cl == 'Sampled':
            sk = {'Sint': 'i32', 'Uint': 'u32', 'Float': 'f32'}[inv['ScalarKind'][g(h.kind)]]
            tn = f'texture_multisampled_{dn}<{sk}>' if g(h.smulti) else f'texture_{dn}<{sk}>'
        elif cl == 'Depth':
            tn = f'texture_depth_multisampled_{dn}' if g(h.dmulti) else f'texture_depth_{dn}'
        else:
            fm = W.wgsl_format_names()[inv['StorageFormat'][g(h.fmt)]]
            am = {1: 'read', 2: 'write', 3: 'read_write', 7: 'atomic'}[g(h.taccess)]
            tn = f'texture_storage_{dn}<{fm}, {am}>'
        return f'@group(0) @binding({binding}) var res: {tn};\n'
    return None


def find_entry(toks):
    """the single BindGroupLayoutEntry of LAYOUT_DESCRIPTOR0 in a whole generated module"""
    its = T.items(toks)
    mod = T.find_items(its, 'mod', 'bind_groups')
    if not mod:
        raise T.DecodeError('no bind_groups module')
    inner = T.items(T.body_of(mod[0]))
    c = T.find_items(inner, 'const', 'LAYOUT_DESCRIPTOR0')
    if not c:
        raise T.DecodeError('no LAYOUT_DESCRIPTOR0')
    _, val = T.const_parts(c[0])
    body = next(t for t in val if T.is_g(t, '{}'))
    f = dict((n, v) for n, _, v in T.struct_fields(body.v[1]))
    arr = next(t for t in f['entries'] if T.is_g(t, '[]'))
    es = T.split_commas(arr.v[1])
    if len(es) != 1:
        raise T.DecodeError(f'{len(es)} entries')
    return es[0]


def replay(ctx, h, m, expect_rule):
    """rebuild the counterexample as WGSL, run the REAL generator, decode, re-evaluate the rules concretely"""
    src = wgsl_of(ctx, h, m)
    if src is None:
        return None, False, 'no WGSL spelling'
    kind, toks, text_ = ctx.gen_tokens(src, {})
    if kind != 'ok':
        return src, False, f'real build: {kind} {toks}'
    d = decode_bgl_entry(find_entry(toks))
    # evaluate under the model with stages = what the real run produced (the variable is unused -> NONE)
    s = z3.Solver()
    for v in h.vars():
        if v is h.stages:
            continue
        s.add(v == m.eval(v, model_completion=True))
    failed = []
    for name, cond in rules(h, d):
        if name == 'visibility':
            continue
        s.push()
        s.add(z3.Not(cond))
        if s.check() == z3.sat:
            failed.append(name)
        s.pop()
    return src, expect_rule in failed, {'real_entry': d, 'failed_rules': failed}


OOO_SRC = '''@group(0) @binding(5) var<uniform> late: vec4<f32>;
@group(0) @binding(0) var<uniform> early: vec4<f32>;
@group(0) @binding(3) var tex: texture_2d<f32>;
@group(1) @binding(2) var<storage, read> b2: array<f32, 4>;
@group(1) @binding(1) var<uniform> b1: vec4<f32>;
@vertex fn vs() -> @builtin(position) vec4<f32> { return late + b1; }
@fragment fn fs() -> @location(0) vec4<f32> { return early * b2[0] + textureLoad(tex, vec2<i32>(0, 0), 0); }
@compute @workgroup_size(1) fn cs() { let x = b2[1]; }
'''
OOO_WANT = {('0', 5): 1, ('0', 0): 2, ('0', 3): 2, ('1', 2): 6, ('1', 1): 1}        # (group, @binding) -> stages using the variable declared there


def declared_out_of_order(ctx, seen):
    """bindings declared out of ascending @binding order and used by different stages: every layout entry carries the visibility of ITS
    variable (concrete shader through the interpreter and through the real build; both must give the static-use stage sets)"""
    S = ctx.S
    module = S.module(OOO_SRC)
    env = env_passthrough(module, OOO_SRC)
    res = ctx.explore('create_shader_module_inner/bindings-declared-out-of-order',
                      lambda it: it.call('create_shader_module_inner', [OOO_SRC, none(), write_options(S.conv)]), env=env, anchors=['bind_group_layout_entry'])
    for pc, kind, out, _ in res:
        ctx.queries['discharged'] += 1
        vis = visibility_by_slot(out.fields[0].toks) if kind == 'ok' and out.disc == 0 else None
        real = real_visibility_plain(ctx, OOO_SRC)
        if vis == OOO_WANT and real == OOO_WANT:
            ctx.queries['unsat'] += 1
            ctx.replayed_ok += 1
            continue
        ctx.queries['sat'] += 1
        if 'C02/out-of-order' not in seen:
            seen['C02/out-of-order'] = 1
            ctx.report('C02/visibility of bindings declared out of index order', f'layout entries carry {real} (interpreter: {vis}), static use is {OOO_WANT}',
                       {'wgsl': OOO_SRC}, real != OOO_WANT, {'real': {str(k): v for k, v in (real or {}).items()}, 'expected': {str(k): v for k, v in OOO_WANT.items()}})


def visibility_by_slot(toks):
    """{(group, binding index): visibility} read off the LAYOUT_DESCRIPTORn constants - by the entry's own binding number, so that the order
    of the entries inside a descriptor does not matter"""
    out = {}
    mod = T.find_items(T.items(toks), 'mod', 'bind_groups')
    for cst in T.find_items(T.items(T.body_of(mod[0])), 'const') if mod else []:
        if not cst.name.startswith('LAYOUT_DESCRIPTOR'):
            continue
        _, val = T.const_parts(cst)
        body = next(t for t in val if T.is_g(t, '{}'))
        f = dict((nm, v) for nm, _, v in T.struct_fields(body.v[1]))
        arr = next(t for t in f['entries'] if T.is_g(t, '[]'))
        for e in T.split_commas(arr.v[1]):
            d = decode_bgl_entry(e)
            k = (cst.name[len('LAYOUT_DESCRIPTOR'):], d['binding'])
            out[k] = d['visibility'] if k not in out else 'duplicate'
    return out


def real_visibility_plain(ctx, src):
    kind, toks, _ = ctx.gen_tokens(src, {})
    return visibility_by_slot(toks) if kind == 'ok' else None


def run(ctx):
    h = Holes(ctx)
    ctx.bounds = {'skeleton': 'one binding per run (entries are generated independently; the list builder is C04); plus 3 variables with symbolic (@group, @binding) pairs for slot uniqueness',
                  'binding index': 'all u32', 'stage mask': 'all 8 sets', 'storage formats': len(h.E['StorageFormat']),
                  'type classes': BUFFER_KINDS + ['Image', 'Sampler', 'Atomic', 'BindingArray', 'AccelerationStructure']}
    ctx.assumptions += [
        'input space = resource declarations WGSL can express (multisampled => 2d non-arrayed; depth => 2d/2d_array/cube/cube_array; '
        'storage => 1d/2d/2d_array/3d; buffers in uniform / storage(read) / storage(read_write); textures and samplers in handle space)',
        'oracle = transcription of wgpu-core 24.0.5 validation.rs check_binding_use and device/resource.rs create_bind_group_layout '
        'entry rules with all optional device features granted (the property\'s documented assumption)',
        'a panic of the generator (atomic / binding-array / acceleration-structure resource types) is a refusal, not an accepted shader',
        'existence at @group/@binding is decided by C04/C11, stage visibility exactness by C03; here visibility must equal the supplied stage set',
    ]

    def part_entries():
        def mk(stage_term):
            def go(it):
                gb = h.value(ctx)
                stages = BTreeV()
                stages.entries.append(['res', mkflags('wgpu::ShaderStages', stage_term)])
                return it.call('bind_group_layout_entry', [mkref(gb), mkref(stages)])
            return go

        T_ = h.D['TypeInner']
        # (1) every resource type, stage mask fixed;  (2) every stage mask, on a sampler
        res = [(r, 1) for r in ctx.explore('bind_group_layout_entry/any-resource', mk(h.stages),
                                           assume=[h.assumption(), h.stages == 2], anchors=ANCHORS)]
        # and once more with the complementary stage set (VERTEX | COMPUTE): the visibility must be the supplied set for EVERY resource type
        res += [(r, 1) for r in ctx.explore('bind_group_layout_entry/any-resource/vertex+compute', mk(h.stages),
                                            assume=[h.assumption(), h.stages == 5], anchors=ANCHORS)]
        res += [(r, 2) for r in ctx.explore('bind_group_layout_entry/any-stage-mask', mk(h.stages),
                                            assume=[h.assumption(), h.tdisc == T_['Sampler']],
                                            anchors=['bind_group_layout_entry', 'quote_shader_stages'])]
        panics, kinds = {}, {}
        known = [(k, KNOWN_PRED[k](h)) for k in KNOWN_PRED]
        not_known = z3.And([z3.Not(p) for _, p in known]) if known else z3.BoolVal(True)
        replay_budget = 60 if ctx.tier == 'quick' else 100000
        seen = {}

        def failing(m, rs):
            return [n for n, c in rs if not z3.is_true(m.eval(c, model_completion=True))]

        for (pc, kind, out, _), part in res:
            if kind == 'panic':
                panics[out[:60]] = panics.get(out[:60], 0) + 1
                # a refusal must not happen for a type the generator supports
                m = ctx.check(pc, z3.Or(h.is_buffer(), h.tdisc == T_['Image'], h.tdisc == T_['Sampler']))
                if m is not None:
                    src = wgsl_of(ctx, h, m)
                    k2, v2, _ = ctx.gen_tokens(src, {})
                    ctx.report('C02/panic-on-supported-type', f'generator panics ({out}) on {src.strip()}', {'wgsl': src}, k2 == 'panic')
                continue
            try:
                d = decode_bgl_entry(out.toks)
            except T.DecodeError as e:
                m = ctx.witness(pc)
                src = wgsl_of(ctx, h, m)
                try:
                    k2, toks2, _ = ctx.gen_tokens(src, {})
                    decode_bgl_entry(find_entry(toks2))
                    rep = False
                except T.DecodeError:
                    rep = True
                ctx.report('C02/malformed-entry', f'layout entry does not decode ({e}) for {src.strip()}', {'wgsl': src}, rep)
                continue
            kinds[d['ty']['kind']] = kinds.get(d['ty']['kind'], 0) + 1
            rs = rules(h, d)
            bad = z3.Or([z3.Not(c) for _, c in rs])
            m = ctx.check(pc, z3.And(bad, not_known))
            if m is not None:
                for name in failing(m, rs):
                    key = f'C02/{name}/{d["ty"]["kind"]}'
                    seen[key] = seen.get(key, 0) + 1
                    if seen[key] > 1:
                        continue
                    src, rep, detail = replay(ctx, h, m, name)
                    ctx.report(key, f'rule "{name}" fails for `{(src or "").strip()}`: entry {d["ty"]}', {'wgsl': src, 'options': {}}, rep, detail)
            for key, pred in known:
                m = ctx.check(pc, z3.And(bad, pred))
                if m is not None:
                    seen[key] = seen.get(key, 0) + 1
                    if seen[key] > 1:
                        continue
                    names = failing(m, rs)
                    src, rep, detail = replay(ctx, h, m, names[0])
                    ctx.report(key, f'rule "{names[0]}" fails for `{(src or "").strip()}`', {'wgsl': src, 'options': {}}, rep, detail)
            # translator validation on this path: witness -> WGSL -> real build must give the same entry
            if replay_budget > 0 and part == 1:
                replay_budget -= 1
                m = ctx.witness(pc)
                src = wgsl_of(ctx, h, m)
                k2, toks2, _ = ctx.gen_tokens(src, {})
                if k2 == 'ok':
                    d2 = decode_bgl_entry(find_entry(toks2))
                    mine = dict(d, visibility=0)
                    mine['binding'] = model_value(m, h.binding)
                    if d2 != dict(mine):
                        raise Inconclusive(f'translator disagrees with the implementation on {src.strip()}: {d2} != {mine}')
                    ctx.replayed_ok += 1
                    ctx.sample({'wgsl': src.strip(), 'entry': d2})
        # vacuity: the assertion is reachable (twin query with the property replaced by false)
        okp = [r for (r, _) in res if r[1] == 'ok']
        if not okp:
            raise Inconclusive('no path reached the decoder')
        ctx.vacuity_witness('some path reaches the assertion', okp[0][0])
        ctx.extra['violations_by_rule'] = seen
        return kinds, panics, seen
    r_ = ctx.section('layout entries', part_entries)
    kinds, panics, seen = r_ if r_ else ({}, {}, {})
    # "visible to that stage": the stage analysis feeding the visibility field, on call sequences shared between entry points of
    # different stages (the full set of nesting contexts is C03's)
    from harness import c03 as C03
    vis_seen = {}
    ctx.section('visibility: sequences', lambda: C03.sequences(ctx, 2, 2, vis_seen))
    ctx.section('visibility: end to end', lambda: C03.end_to_end(ctx, vis_seen))
    ctx.section('visibility: bindings declared out of index order', lambda: declared_out_of_order(ctx, vis_seen))
    ctx.extra['visibility_subcheck'] = vis_seen
    # "no two entries of one layout share a binding index" (wgpu create_bind_group_layout: conflicting binding): the grouping of
    # k = 3 variables with symbolic (@group, @binding) pairs, judged by C11's contract (Ok => every slot used once)
    from harness import c11 as C11
    k = 3
    src3, module3, holes3 = C11.build(ctx, k)
    res3 = ctx.explore(f'get_bind_group_data/k={k} (distinct binding indices per layout)', lambda it: it.call('get_bind_group_data', [mkref(module3)]),
                       assume=ctx.space_assume, anchors=['get_bind_group_data'], timeout_s=900)
    for pc, kind, out, _ in res3:
        C11.check_result(ctx, f'k={k}', holes3, pc, kind, out, lambda vals: C11.template(k, vals))
    # "taken in pipeline-layout order": the pipeline layout must list one layout per group, in index order, whether or not an entry
    # point uses the group - C04's templates and conditions, run here as well
    from harness import c04 as C04
    saved_bounds = dict(ctx.bounds)
    ctx.section('pipeline layout order (C04)', lambda: C04.run(ctx))
    ctx.bounds = dict(saved_bounds, pipeline_layout_order='the templates of C04 (bounds: ' + str(ctx.bounds)[:300] + ')')
    ctx.extra['entry_kinds_per_path'] = kinds
    ctx.extra['generator_refusals'] = panics
    # whole-pipeline translator validation on the repository's own fixtures
    import glob
    for f in sorted(glob.glob('/repo/wgsl_to_wgpu/src/data/bindgroup/*.wgsl')):
        ctx.differential(open(f).read(), {})


def _entry_types(text):
    """{binding number: text of the `ty:` field} for every wgpu::BindGroupLayoutEntry in the generated text (whitespace removed)"""
    import re
    t = re.sub(r'\s+', '', text)
    return {int(m.group(1)): m.group(2) for m in re.finditer(r'wgpu::BindGroupLayoutEntry\{binding:(\d+)(?:u32)?,visibility:.*?,ty:(.*?),count:None,?\}', t)}


NATIVE_DECLS = ['var<uniform> {n}: vec4<f32>;', 'var<storage> {n}: vec4<f32>;', 'var<storage, read_write> {n}: vec4<f32>;',
                'var<uniform> {n}: S;', 'var<storage, read> {n}: S;', 'var<storage, read_write> {n}: S;',
                'var {n}: texture_2d<f32>;', 'var {n}: texture_2d<u32>;', 'var {n}: texture_depth_2d;', 'var {n}: sampler;', 'var {n}: sampler_comparison;',
                'var {n}: texture_storage_2d<rgba8unorm, write>;', 'var {n}: texture_storage_2d<rgba8unorm, read>;',
                'var<storage, read> {n}: array<vec4<f32>>;', 'var<storage, read_write> {n}: array<vec4<f32>>;']


def native_compositional(ctx):
    """the binding TYPE of a layout entry is a function of the variable's own declaration: the same declaration alone in a module
    gets the same `ty` as next to other declarations of the group (sampling; same-type neighbours in different address spaces)"""
    pre = 'struct S { a: vec4<f32> }\n'
    alone = {}
    for d in NATIVE_DECLS:
        r = ctx.S.oracle.gen(pre + '@group(0) @binding(0) ' + d.replace('{n}', 'v0') + '\n', {})
        if 'ok' in r and 0 in _entry_types(r['ok']):
            alone[d] = _entry_types(r['ok'])[0]
    n = 40 if ctx.tier == 'quick' else 400
    for i in range(n):
        k = ctx.rng.choice([2, 3, 4])
        ds = [ctx.rng.choice(list(alone)) for _ in range(k)]
        if i < len(NATIVE_DECLS) - 1:
            ds = [NATIVE_DECLS[i], NATIVE_DECLS[i + 1]] + ds[2:]
            if any(d not in alone for d in ds):
                continue
        src = pre + ''.join(f'@group(0) @binding({j}) ' + d.replace('{n}', f'v{j}') + '\n' for j, d in enumerate(ds))
        r = ctx.S.oracle.gen(src, {})
        if 'ok' not in r:
            continue
        got = _entry_types(r['ok'])
        bad = [(j, d) for j, d in enumerate(ds) if got.get(j) != alone[d]]
        if bad:
            j, d = bad[0]
            ctx.report('C02/native-compositional', f'binding {j} (`{d}`) gets ty {str(got.get(j))[:120]} next to {[x for x in ds]}, but {alone[d][:120]} alone',
                       {'wgsl': src}, True, {'real': got.get(j), 'alone': alone[d]})
            return
        ctx.replayed_ok += 1


def native(ctx):
    from harness import c03 as C03
    C03.native(ctx)
    native_compositional(ctx)


if __name__ == '__main__':
    sys.exit(main('C02', run, native))
