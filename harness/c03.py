"""C03  Binding visibility equals exactly the stages that statically use it.

Real code executed symbolically: global_shader_stages / update_stages / update_stages_blocks / naga_stages / entry_stages,
quote_shader_stages, the lookup + NONE fallback in bind_group_layout_entry, push_constant_range_stages, and (end to end)
create_shader_module_inner.

A template shader is parsed by the REAL naga; then the callee of call statements (void and value-returning) in every
nesting context, the global referenced by use sites, and the stage of every entry point are replaced by SMT variables.
The oracle is static reachability written directly over those hole variables.  Counterexamples are rendered back to
WGSL and replayed through the real generator.
"""
import itertools
import z3
from harness.common import *
from harness.decoders import decode_bgl_entry
from mirsym.schema import mkflags, flag_bits

GLOBALS = [
    # name, declaration, access forms (statements)
    ('u0', '@group(0) @binding(0) var<uniform> u0: vec4<f32>;', ['let t{n} = u0.x;']),
    ('s1', '@group(0) @binding(1) var<storage, read_write> s1: S1;',
     ['atomicAdd(&s1.counter, 1u);', 'let t{n} = arrayLength(&s1.data);', 's1.data[0] = 1u;', 'let t{n} = s1.data[1];']),
    ('tex', '@group(0) @binding(2) var tex: texture_2d<f32>;',
     ['let t{n} = textureDimensions(tex);', 'let t{n} = textureLoad(tex, vec2<i32>(0, 0), 0);']),
    ('smp', '@group(1) @binding(0) var smp: sampler;', ['let t{n} = textureSampleLevel(tex2, smp, vec2<f32>(0.0, 0.0), 0.0);']),
    ('st', '@group(1) @binding(1) var st: texture_storage_2d<rgba8unorm, write>;',
     ['textureStore(st, vec2<i32>(0, 0), vec4<f32>(0.0, 0.0, 0.0, 0.0));']),
    ('pc', 'var<push_constant> pc: vec4<f32>;', ['let t{n} = pc.x;']),
]
PRELUDE = 'struct S1 { counter: atomic<u32>, data: array<u32> }\n@group(1) @binding(2) var tex2: texture_2d<f32>;\n'
CONTEXTS = ['plain', 'if_accept', 'if_reject', 'switch_case', 'switch_default', 'loop_body', 'continuing', 'block', 'for_body',
            'nested_if_in_loop', 'plain2', 'plain3', 'loop_body2', 'dead_else_of_if_true', 'dead_then_of_if_false']
STAGE_ATTR = {0: ('@vertex', '-> @builtin(position) vec4<f32>', 'return vec4<f32>(0.0, 0.0, 0.0, 1.0);'),
              1: ('@fragment', '', ''), 2: ('@compute @workgroup_size(1)', '', '')}
STAGE_BIT = {0: 1, 1: 2, 2: 4}
OPTS = {'derive_encase_host_shareable': True}       # S1 ends in a runtime-sized array


NOUSE = '<no use site>'


class Slot:
    def __init__(self, sid, kind, owner, ctxname):
        self.id, self.kind, self.owner, self.ctx = sid, kind, owner, ctxname
        self.term = None          # z3 term when symbolic
        self.value = None         # concrete choice: name of global / helper, or None = absent (marker)

    def marker(self):
        return {'use': f'd{self.id}', 'callv': f'm{self.id}', 'callr': f'z{self.id}'}[self.kind]


class Template:
    """helpers hv1..hvN (void) and hr1..hrN (value) each with one use slot and one call slot of each kind that may only
    name helpers of smaller index; entries with a use slot, a value-call slot and one void-call slot per nesting context"""

    def __init__(self, n_helpers, entry_stages, contexts):
        self.slots, self.funcs, self.entries = [], [], []
        self.n_helpers = n_helpers
        sid = itertools.count()
        for j in range(1, n_helpers + 1):
            for kind in ('v', 'r'):
                name = f'h{kind}{j}'
                f = {'name': name, 'kind': kind, 'index': j, 'slots': {}}
                f['slots']['use'] = self._slot(next(sid), 'use', name, 'plain')
                f['slots']['callv'] = self._slot(next(sid), 'callv', name, 'plain')
                f['slots']['callr'] = self._slot(next(sid), 'callr', name, 'plain')
                self.funcs.append(f)
        for i, st in enumerate(entry_stages):
            name = f'e{i}'
            e = {'name': name, 'stage': st, 'slots': {}, 'ctx': {}}
            e['slots']['use'] = self._slot(next(sid), 'use', name, 'plain')
            e['slots']['callr'] = self._slot(next(sid), 'callr', name, 'expr')
            for c in contexts:
                e['ctx'][c] = self._slot(next(sid), 'callv', name, c)
            self.entries.append(e)
        self.contexts = contexts

    def _slot(self, sid, kind, owner, ctxname):
        s = Slot(sid, kind, owner, ctxname)
        self.slots.append(s)
        return s

    # ---- rendering ------------------------------------------------------------------------------
    def r_use(self, s, form=0):
        if s.value == NOUSE:
            return ''                      # this function mentions no global at all (a pure wrapper)
        if s.value is None:
            return f'd{s.id} = 1u;'
        forms = dict((g[0], g[2]) for g in GLOBALS)[s.value]
        return forms[form % len(forms)].replace('{n}', str(s.id))

    def r_callv(self, s):
        return f'{s.value or s.marker()}();'

    def r_callr(self, s):
        if s.value == NOUSE:
            return ''                      # no value-returning call in this function (only legal in a void helper)
        return f'let r{s.id} = {s.value or s.marker()}();'

    def render(self, stages=None, form=0):
        out = [PRELUDE, 'var<workgroup> wg_first: u32;']
        # module-scope variables that are NOT bindings (private markers, a workgroup variable) sit before, between and after the
        # bindings: nothing may rely on bindings being a prefix of the variable list
        uses = [s for s in self.slots if s.kind == 'use']
        for s in uses[0::3]:
            out.append(f'var<private> d{s.id}: u32;')
        for k, g in enumerate(GLOBALS):
            out.append(g[1])
            if k == 1:
                for s in uses[1::3]:
                    out.append(f'var<private> d{s.id}: u32;')
        for s in uses[2::3]:
            out.append(f'var<private> d{s.id}: u32;')
        for s in self.slots:
            if s.kind == 'use':
                pass
            elif s.kind == 'callv':
                out.append(f'fn m{s.id}() {{}}')
            else:
                out.append(f'fn z{s.id}() -> u32 {{ return 0u; }}')
        for f in self.funcs:
            sl = f['slots']
            body = f'{self.r_use(sl["use"], form)} {self.r_callv(sl["callv"])} {self.r_callr(sl["callr"])}'
            if f['kind'] == 'v':
                out.append(f'fn {f["name"]}() {{ {body} }}')
            else:
                out.append(f'fn {f["name"]}() -> u32 {{ {body} return r{sl["callr"].id}; }}')
        for i, e in enumerate(self.entries):
            st = e['stage'] if stages is None else stages[i]
            attr, ret, retstmt = STAGE_ATTR[st]
            c = {k: self.r_callv(v) for k, v in e['ctx'].items()}
            g = lambda k: c.get(k, '')
            body = f'''
  {self.r_use(e["slots"]["use"], form)}
  {self.r_callr(e["slots"]["callr"])}
  let k = r{e["slots"]["callr"].id} + 1u;
  {g("plain")} {g("plain2")} {g("plain3")}
  if (k == 1u) {{ {g("if_accept")} }} else {{ {g("if_reject")} }}
  if (true) {{ }} else {{ {g("dead_else_of_if_true")} }}
  if (false) {{ {g("dead_then_of_if_false")} }}
  switch k {{ case 1u: {{ {g("switch_case")} }} default: {{ {g("switch_default")} }} }}
  loop {{ {g("loop_body")} {g("loop_body2")} if (k > 2u) {{ break; }} if (k > 3u) {{ {g("nested_if_in_loop")} }} continuing {{ {g("continuing")} }} }}
  {{ {g("block")} }}
  for (var i = 0u; i < 2u; i++) {{ {g("for_body")} }}
  {retstmt}'''
            out.append(f'{attr}\nfn {e["name"]}() {ret} {{{body}\n}}')
        return '\n'.join(out) + '\n'


def build(ctx, tpl, sym_slots, sym_stage_entries):
    """parse the default rendering with the real naga, substitute symbolic handles; returns (module, info)"""
    S, c = ctx.S, ctx.S.conv
    src = tpl.render()
    d = S.dump(src)
    mj = d['module']
    fn_h = {f['name']: i for i, f in enumerate(mj['functions'])}
    gl_h = {g['name']: i for i, g in enumerate(mj['global_variables'])}
    module = c.module(d)
    funcs = c.get(module, 'functions').fields[0].items
    eps = c.get(module, 'entry_points').items
    by_owner = {}
    for i, f in enumerate(mj['functions']):
        by_owner[f['name']] = funcs[i]
    for i, e in enumerate(mj['entry_points']):
        by_owner[e['name']] = c.get(eps[i], 'function')
    sym = {s.id: s for s in sym_slots}
    assume = []
    helper_index = {f['name']: f['index'] for f in tpl.funcs}
    helper_kind = {f['name']: f['kind'] for f in tpl.funcs}
    for s in tpl.slots:
        s.term = None
        if s.id not in sym:
            continue
        fn = by_owner[s.owner]
        own_index = helper_index.get(s.owner, 10 ** 6)
        if s.kind == 'use':
            t = z3.BitVec(f'use{s.id}', 32)
            dom = [gl_h[f'd{s.id}']] + [gl_h[g[0]] for g in GLOBALS]
            exprs = c.get(fn, 'expressions').fields[0].items
            hits = [e for e in exprs if e.variant == 'GlobalVariable' and e.fields[0] == gl_h[f'd{s.id}']]
            if len(hits) != 1:
                raise Inconclusive(f'template/IR mismatch for use slot {s.id}: {len(hits)} GlobalVariable expressions')
            hits[0].fields[0] = t
        else:
            t = z3.BitVec(f'call{s.id}', 32)
            k = 'v' if s.kind == 'callv' else 'r'
            dom = [fn_h[s.marker()]] + [fn_h[n] for n in fn_h if helper_kind.get(n) == k and helper_index[n] < own_index]
            n_st = subst_calls(c, c.get(fn, 'body'), fn_h[s.marker()], t)
            n_ex = 0
            for e in c.get(fn, 'expressions').fields[0].items:
                if e.variant == 'CallResult' and e.fields[0] == fn_h[s.marker()]:
                    e.fields[0] = t          # naga invariant: the CallResult names the callee of its Call statement
                    n_ex += 1
            if n_st != 1 or n_ex != (1 if s.kind == 'callr' else 0):
                raise Inconclusive(f'template/IR mismatch for call slot {s.id}: {n_st} statements, {n_ex} results')
        s.term, s.dom = t, dom
        assume.append(z3.Or([t == v for v in dom]))
    stage_terms = {}
    for i in sym_stage_entries:
        t = z3.BitVec(f'stage{i}', 64)
        c.set(eps[i], 'stage', Agg('ShaderStage', [], disc=t))
        stage_terms[i] = t
        assume.append(z3.ULT(t, 3))
    return module, {'src': src, 'fn_h': fn_h, 'gl_h': gl_h, 'assume': assume, 'stage_terms': stage_terms, 'mj': mj}


def subst_calls(c, block, marker, term):
    n = 0
    for st in block.fields[0].items:
        if st.variant == 'Call' and st.fields[0] == marker:
            st.fields[0] = term
            n += 1
        for f in st.fields:
            if isinstance(f, Agg) and f.path == 'Block':
                n += subst_calls(c, f, marker, term)
            elif isinstance(f, VecV):
                for case in f.items:
                    if isinstance(case, Agg) and case.path == 'SwitchCase':
                        n += subst_calls(c, c.get(case, 'body'), marker, term)
    return n


def reference(tpl, info):
    """stages(g) over the hole variables: static reachability, helpers in ascending order (acyclic by construction)"""
    fn_h, gl_h = info['fn_h'], info['gl_h']
    B = z3.BoolVal

    def eqs(s, handle):
        """does slot s name `handle`?"""
        if s.term is not None:
            return s.term == handle
        cur = s.value or s.marker()
        if cur == NOUSE:
            return B(False)
        h = (gl_h if s.kind == 'use' else fn_h)[cur]
        return B(h == handle)
    uses = {}
    for f in sorted(tpl.funcs, key=lambda f: f['index']):
        for g in GLOBALS:
            gh = gl_h[g[0]]
            u = eqs(f['slots']['use'], gh)
            for k in ('callv', 'callr'):
                for f2 in tpl.funcs:
                    if f2['index'] < f['index']:
                        u = z3.Or(u, z3.And(eqs(f['slots'][k], fn_h[f2['name']]), uses[(f2['name'], g[0])]))
            uses[(f['name'], g[0])] = z3.simplify(u)
    want = {}
    for g in GLOBALS:
        gh = gl_h[g[0]]
        acc = z3.BitVecVal(0, 32)
        for i, e in enumerate(tpl.entries):
            u = eqs(e['slots']['use'], gh)
            for s in [e['slots']['callr']] + list(e['ctx'].values()):
                for f2 in tpl.funcs:
                    u = z3.Or(u, z3.And(eqs(s, fn_h[f2['name']]), uses[(f2['name'], g[0])]))
            if i in info['stage_terms']:
                st = info['stage_terms'][i]
                bit = z3.If(st == 0, z3.BitVecVal(1, 32), z3.If(st == 1, z3.BitVecVal(2, 32), z3.BitVecVal(4, 32)))
            else:
                bit = z3.BitVecVal(STAGE_BIT[e['stage']], 32)
            acc = acc | z3.If(u, bit, z3.BitVecVal(0, 32))
        want[g[0]] = z3.simplify(acc)
    return want


def concretize(tpl, info, m):
    """fill the template from a model; returns (wgsl, stages)"""
    inv_fn = {v: k for k, v in info['fn_h'].items()}
    inv_gl = {v: k for k, v in info['gl_h'].items()}
    saved = [(s, s.value) for s in tpl.slots]
    for s in tpl.slots:
        if s.term is not None:
            v = model_value(m, s.term)
            name = (inv_gl if s.kind == 'use' else inv_fn)[v]
            s.value = None if name == s.marker() else name
    stages = [model_value(m, info['stage_terms'][i]) if i in info['stage_terms'] else e['stage'] for i, e in enumerate(tpl.entries)]
    out = []
    for form in range(4):
        out.append(tpl.render(stages, form))
    for s, v in saved:
        s.value = v
    return out, stages


def real_visibility(ctx, wgsl, validate=False):
    """visibility per variable name as emitted by the REAL generator (+ push constant stages)"""
    kind, toks, _ = ctx.gen_tokens(wgsl, dict(OPTS, validate=True) if validate else OPTS)
    if kind != 'ok':
        raise Inconclusive(f'real build did not accept a rendered template: {kind} {toks}')
    return decode_visibility(toks)


def decode_visibility(toks):
    its = T.items(toks)
    vis = {}
    mod = T.find_items(its, 'mod', 'bind_groups')
    if mod:
        inner = T.items(T.body_of(mod[0]))
        for st in T.find_items(inner, 'struct'):
            if st.name.startswith('BindGroupLayout'):
                n = st.name[len('BindGroupLayout'):]
                names = [f[0] for f in T.struct_fields(T.body_of(st))]
                cst = T.find_items(inner, 'const', 'LAYOUT_DESCRIPTOR' + n)[0]
                _, val = T.const_parts(cst)
                body = next(t for t in val if T.is_g(t, '{}'))
                f = dict((nm, v) for nm, _, v in T.struct_fields(body.v[1]))
                arr = next(t for t in f['entries'] if T.is_g(t, '[]'))
                es = T.split_commas(arr.v[1])
                if len(es) != len(names):
                    raise T.DecodeError('entries / fields mismatch')
                for nm, e in zip(names, es):
                    vis[nm] = decode_bgl_entry(e)['visibility']
    pcs = T.find_items(its, 'const', 'PUSH_CONSTANT_STAGES')
    if pcs:
        vis['pc'] = T.eval_stages(T.const_parts(pcs[0])[1])
    return vis


def check_stage_map(ctx, label, tpl, info, res, seen):
    want = reference(tpl, info)
    for pc, kind, out, _ in res:
        if kind == 'panic':
            m = ctx.witness(pc)
            srcs, _ = concretize(tpl, info, m)
            k2, v2, _ = ctx.gen_tokens(srcs[0], OPTS)
            ctx.report('C03/panic', f'stage analysis panics: {out}', {'wgsl': srcs[0]}, k2 == 'panic')
            continue
        got = {}
        for k, v in out.entries:
            got[k] = flag_bits(v)
        bad = []
        for g in GLOBALS:
            have = got.get(g[0], 0)
            bad.append((g[0], have != want[g[0]]))
        if 'pc' in got:
            # for the push constant "in the map with the empty set" is NOT the same as "not in the map": push_constant_range_stages
            # falls back to the entry stages only when the name is absent
            bad.append(('pc', (got['pc'] == 0) if is_sym(got['pc']) else z3.BoolVal(got['pc'] == 0)))
        m = ctx.check(pc, z3.Or([b for _, b in bad]))
        if m is None:
            continue
        wrong = [n for n, b in bad if z3.is_true(m.eval(b, model_completion=True))]
        key = 'C03/stage-set/' + label.split('/')[1]
        seen[key] = seen.get(key, 0) + 1
        if seen[key] > 1:
            continue
        srcs, stages = concretize(tpl, info, m)
        # replay: real generator on the rendered shader (all access forms); expected from the model
        rep, detail = False, None
        for src in srcs:
            vis = real_visibility(ctx, src)
            for n in wrong:
                exp = model_value(m, want[n])
                if n == 'pc' and exp == 0:
                    exp = 0
                    for s_ in set(stages):
                        exp |= STAGE_BIT[s_]
                if vis.get(n) != exp:
                    rep, detail = True, {'variable': n, 'expected_stages': exp, 'real_output_stages': vis.get(n), 'wgsl': src}
                    break
            if rep:
                break
        ctx.report(key, f'stage set of {wrong} differs from static reachability ({label})', detail or {'wgsl': srcs[0]}, rep, detail)


def run(ctx):
    quick = ctx.tier == 'quick'
    seen = {}
    ctx.assumptions += [
        'helper call graphs are acyclic (WGSL forbids recursion): a call slot of helper j may only name helpers of smaller index',
        'the GlobalVariable / CallResult expressions of a function are what naga emits for any access form (load, store, atomic, '
        'arrayLength, texture load/sample/store/dimensions): checked per run by rendering witnesses with every access form and '
        'comparing the real generator\'s output',
        'ShaderStages values are unions of VERTEX|FRAGMENT|COMPUTE (bits < 8)',
    ]
    ctx.bounds = {'helpers': '2 void + 2 value-returning (quick), 3+3 (thorough)', 'entries': '2 (quick) / 3 (thorough)',
                  'globals': len(GLOBALS), 'nesting contexts': CONTEXTS, 'three-entry family': 'stages of 3 entry points symbolic (all 27 sequences), each calling a shared void / value helper or not', 'multi-use family': '5 globals (3 bindings, a private variable, the push constant); helper: 6 references to one global then 2 symbolic ones; entries: 3 / 2 references, each symbolic over the globals (one function per run)',
                  'symbolic slots per run': '3-4 (quick), 5-6 (thorough)'}
    nh = 2 if quick else 3
    ne = 2 if quick else 3
    # ---------------------------------------------------------------- (A) stage map on symbolic call graphs
    ctxs = list(CONTEXTS)
    if quick:
        ctx.rng.shuffle(ctxs)
    plans = []
    for cx in ctxs:
        plans.append((cx, None))
    if not quick:
        plans += [(a, b) for a, b in itertools.combinations(CONTEXTS, 2)][:: 9]
    sequences(ctx, nh, ne, seen)
    multi_use(ctx, seen)
    three_entries(ctx, seen)
    wrappers(ctx, seen)
    contexts(ctx, nh, ne, seen, plans)
    # value-returning calls inside expressions + symbolic entry stages
    tpl = Template(nh, [1, 2, 0][:ne], CONTEXTS)
    hr_top = [f for f in tpl.funcs if f['kind'] == 'r'][-1]
    hr_low = [f for f in tpl.funcs if f['kind'] == 'r'][0]
    sym = [tpl.entries[0]['slots']['callr'], hr_top['slots']['callr'], hr_top['slots']['use']]
    if not quick:
        sym += [hr_low['slots']['use'], tpl.entries[1]['slots']['use']]
    module, info = build(ctx, tpl, sym, list(range(ne)))
    label = 'global_shader_stages/value_calls+stages'
    res = ctx.explore(label, lambda it: it.call('global_shader_stages', [mkref(module)]), assume=info['assume'],
                      anchors=['global_shader_stages', 'update_stages', 'naga_stages'])
    check_stage_map(ctx, label, tpl, info, res, seen)
    ctx.sample({'harness': label, 'template_wgsl_head': info['src'][:400], 'paths': len(res)})
    ctx.vacuity_witness('stage map assertion reachable', res[0][0])

    # ---------------------------------------------------------------- (B) stage set -> token expression, all bit patterns < 8
    bits = z3.BitVec('stage_bits', 32)
    res = ctx.explore('quote_shader_stages/all-masks', lambda it: it.call('quote_shader_stages', [mkflags('wgpu::ShaderStages', bits)]),
                      assume=[z3.ULT(bits, 8)], anchors=['quote_shader_stages'])
    for pc, kind, out, _ in res:
        if kind == 'panic':
            m = ctx.witness(pc)
            ctx.report('C03/quote-panic', f'quote_shader_stages panics: {out}', {'bits': model_value(m, bits)}, True)
            continue
        try:
            val = T.eval_stages(out.toks)
            m = ctx.check(pc, bits != val)
        except T.DecodeError as e:
            val, m = str(e), ctx.witness(pc)
        if m is not None:
            b = model_value(m, bits)
            rep = replay_mask(ctx, b)
            ctx.report('C03/stage-expression', f'stage set {b} is emitted as `{T.text(out.toks)}` (= {val})', {'bits': b}, rep[0], rep[1])
    ctx.sample({'harness': 'quote_shader_stages', 'paths': len(res), 'example': T.text(res[0][2].toks) if res[0][1] == 'ok' else res[0][2]})

    # ---------------------------------------------------------------- (C) lookup by name with NONE fallback; push constant fallback
    check_lookup(ctx, seen)

    end_to_end(ctx, seen)
    ctx.extra['violations_by_rule'] = seen


def contexts(ctx, nh, ne, seen, plans, full=None):
    """a void call in every nesting context (plan = one or two contexts), with symbolic callee, symbolic uses in the helpers"""
    quick = ctx.tier == 'quick' if full is None else not full
    for cx, cx2 in plans:
        tpl = Template(nh, [1, 2, 0][:ne], CONTEXTS)
        e0 = tpl.entries[0]
        hv_top = [f for f in tpl.funcs if f['kind'] == 'v'][-1]
        hv_low = [f for f in tpl.funcs if f['kind'] == 'v'][0]
        hr_top = [f for f in tpl.funcs if f['kind'] == 'r'][-1]
        # concrete part: the other entry uses u0 directly; the lowest helpers use something fixed
        tpl.entries[1]['slots']['use'].value = 'u0'
        sym = [e0['ctx'][cx], hv_top['slots']['use'], hv_top['slots']['callv'], hv_low['slots']['use']]
        if cx2:
            sym.append(e0['ctx'][cx2])
        if not quick:
            sym += [hv_top['slots']['callr'], hr_top['slots']['use']]
        module, info = build(ctx, tpl, sym, [])
        label = f'global_shader_stages/{cx}{"+" + cx2 if cx2 else ""}'
        res = ctx.explore(label, lambda it: it.call('global_shader_stages', [mkref(module)]), assume=info['assume'],
                          anchors=['global_shader_stages', 'update_stages', 'update_stages_blocks', 'naga_stages'])
        check_stage_map(ctx, label, tpl, info, res, seen)


def three_entries(ctx, seen):
    """three entry points whose stages are all symbolic (every sequence, e.g. vertex-fragment-vertex), each calling a shared helper or
    not: state carried from one entry point to the next (visited sets, summaries) must not depend on the order or repetition of stages"""
    quick = ctx.tier == 'quick'
    tpl = Template(1, [0, 1, 0], ['plain'])
    hv = [f for f in tpl.funcs if f['kind'] == 'v'][0]
    hr = [f for f in tpl.funcs if f['kind'] == 'r'][0]
    hv['slots']['use'].value = 'u0'
    hr['slots']['use'].value = 'tex'
    sym = [e['ctx']['plain'] for e in tpl.entries]
    if not quick:
        sym += [e['slots']['callr'] for e in tpl.entries]
    else:
        tpl.entries[1]['slots']['callr'].value = hr['name']
        sym.append(tpl.entries[2]['slots']['callr'])
    module, info = build(ctx, tpl, sym, [0, 1, 2])
    label = 'global_shader_stages/three-entries-symbolic-stages'
    res = ctx.explore(label, lambda it: it.call('global_shader_stages', [mkref(module)]), assume=info['assume'],
                      anchors=['global_shader_stages', 'update_stages', 'naga_stages'])
    check_stage_map(ctx, label, tpl, info, res, seen)


def end_to_end(ctx, seen):
    """(D) through create_shader_module_inner, with validation symbolic (off / on): the visibility must not depend on it"""
    tpl = Template(1, [1, 2], ['plain', 'continuing', 'switch_default'])
    hv = [f for f in tpl.funcs if f['kind'] == 'v'][0]
    sym = [tpl.entries[0]['ctx']['continuing'], hv['slots']['use']]
    module, info = build(ctx, tpl, sym, [])
    src = info['src']
    env = env_passthrough(module, src)
    validate_on = z3.Bool('validate_is_some')
    vo = Agg('Option', {'Some': [Agg('ValidationOptions', [Agg('Capabilities', [Agg('InternalBitFlags', [z3.BitVec('capabilities', 32)])])])], 'None': []},
             disc=z3.If(validate_on, z3.BitVecVal(1, 64), z3.BitVecVal(0, 64)))
    res = ctx.explore('create_shader_module_inner/end-to-end',
                      lambda it: it.call('create_shader_module_inner', [src, none(), write_options(ctx.S.conv, validate=vo, **OPTS)]),
                      assume=info['assume'], env=env, anchors=['global_shader_stages', 'bind_group_layout_entry', 'push_constant_range_stages'])
    want = reference(tpl, info)
    for pc, kind, out, _ in res:
        if kind == 'panic' or out.disc != 0:
            raise Inconclusive(f'end-to-end run did not return Ok: {kind} {out}')
        vis = decode_visibility(out.fields[0].toks)
        bad = []
        for g in GLOBALS:
            w = want[g[0]]
            if g[0] == 'pc':
                w = z3.If(w == 0, z3.BitVecVal(2 | 4, 32), w)         # unused push constant: all entry stages
            bad.append(w != vis[g[0]])
        m = ctx.check(pc, z3.Or(bad))
        if m is not None:
            srcs, stages = concretize(tpl, info, m)
            von = model_value(m, validate_on)
            rv = real_visibility(ctx, srcs[0], validate=von)
            exp = {}
            for g in GLOBALS:
                e_ = model_value(m, want[g[0]])
                exp[g[0]] = (6 if (g[0] == 'pc' and e_ == 0) else e_)
            exp2 = dict(exp)
            key = 'C03/end-to-end'
            seen[key] = seen.get(key, 0) + 1
            if seen[key] == 1:
                ctx.report(key, f'emitted visibility {rv} != static use {exp} (validate={von})', {'wgsl': srcs[0], 'options': dict(OPTS, validate=von)},
                           {k: v for k, v in rv.items() if k in exp2} != exp2, {'real': rv, 'expected': exp})
    # translator validation: the default rendering and one witness rendering, token-exact against the real build
    ctx.differential(src, OPTS)
    m = ctx.witness(res[-1][0])
    srcs, _ = concretize(tpl, info, m)
    ctx.differential(srcs[0], OPTS)


def sequences(ctx, nh, ne, seen, low_use='u0'):
    """several calls in ONE block (repeated callee, then a new one), with a later entry point of another stage reaching the low helper
    only THROUGH the top helper: neither an early stop of the walk nor a summary cached across entry points may lose a stage"""
    seqs = [('plain', 'plain2', 'plain3'), ('loop_body', 'loop_body2', None)]
    for a_, b_, c_ in seqs:
        tpl = Template(nh, [1, 2, 0][:ne], CONTEXTS)
        e0 = tpl.entries[0]
        hvs = [f for f in tpl.funcs if f['kind'] == 'v']
        hvs[0]['slots']['use'].value = low_use
        hvs[-1]['slots']['callv'].value = hvs[0]['name']          # top helper calls the low helper
        tpl.entries[1]['slots']['use'].value = 'tex'
        tpl.entries[1]['ctx']['plain'].value = hvs[-1]['name']     # the other entry point reaches the low helper only through the top one
        sym = [e0['ctx'][x] for x in (a_, b_, c_) if x] + [hvs[-1]['slots']['use']]
        module, info = build(ctx, tpl, sym, [])
        label = f'global_shader_stages/sequence-{a_}+{b_}{"+" + c_ if c_ else ""}'
        res = ctx.explore(label, lambda it: it.call('global_shader_stages', [mkref(module)]), assume=info['assume'],
                          anchors=['global_shader_stages', 'update_stages', 'update_stages_blocks'])
        check_stage_map(ctx, label, tpl, info, res, seen)


MU_GLOBALS = [('a', '@group(0) @binding(0) var<uniform> a: vec4<f32>;', 'let t{n} = a.x;'),
              ('b', '@group(0) @binding(1) var<uniform> b: vec4<f32>;', 'let t{n} = b.y;'),
              ('c', '@group(0) @binding(2) var<storage, read_write> c: array<u32, 4>;', 'c[{n}] = c[{n}] + 1u;'),
              ('p', 'var<private> p: f32;', 'p = p + 1.0;'),                       # a module-scope variable that is not a resource
              ('pc', 'var<push_constant> pc: vec4<f32>;', 'let t{n} = pc.x;')]
MU_FUNCS = [('helper', None, 8), ('e0', 1, 3), ('e1', 2, 2)]          # name, stage, number of use sites; e0 calls helper, e1 does not
MU_FIXED_PREFIX = {'helper': 6}        # the first 6 references of helper are to `a` (more references than the module has globals); the rest symbolic


def mu_render(choice=None):
    """every function holds several textual references to globals (naga: one GlobalVariable expression per reference)"""
    out = [g[1] for g in MU_GLOBALS]
    forms = {g[0]: g[2] for g in MU_GLOBALS}
    n = 0
    for name, stage, k in MU_FUNCS:
        body = []
        for i in range(k):
            g = (choice or {}).get((name, i), 'a')
            body.append(forms[g].replace('{n}', str(n % 4) if g == 'c' else str(n)))
            n += 1
        if stage is None:
            out.append(f'fn {name}() {{ ' + ' '.join(body) + ' }')
        else:
            attr = STAGE_ATTR[stage][0]
            out.append(f'{attr} fn {name}() {{ ' + ' '.join(body) + (' helper();' if name == 'e0' else '') + ' }')
    return '\n'.join(out) + '\n'


def multi_use(ctx, seen):
    """functions that reference globals SEVERAL times, in any order and multiplicity (counting references is not counting globals)"""
    S, c = ctx.S, ctx.S.conv
    quick = ctx.tier == 'quick'
    for sym_fn in (['helper'] if quick else ['helper', 'e0', 'e1']):
        src = mu_render()
        d = S.dump(src)
        mj = d['module']
        gl_h = {g['name']: i for i, g in enumerate(mj['global_variables'])}
        module = c.module(d)
        funcs = {f['name']: fv for f, fv in zip(mj['functions'], c.get(module, 'functions').fields[0].items)}
        for e, ev in zip(mj['entry_points'], c.get(module, 'entry_points').items):
            funcs[e['name']] = c.get(ev, 'function')
        terms, assume = {}, []
        for name, stage, k in MU_FUNCS:
            refs = [e for e in c.get(funcs[name], 'expressions').fields[0].items if e.variant == 'GlobalVariable']
            if len(refs) != k:
                raise Inconclusive(f'multi-use template: {len(refs)} GlobalVariable expressions in {name}, expected {k}')
            for i, e in enumerate(refs):
                if name == sym_fn and i >= MU_FIXED_PREFIX.get(name, 0):
                    t = z3.BitVec(f'ref_{name}_{i}', 32)
                    e.fields[0] = t
                    terms[(name, i)] = t
                    assume.append(z3.Or([t == h for h in gl_h.values()]))
        label = f'global_shader_stages/multi-use-{sym_fn}'
        res = ctx.explore(label, lambda it: it.call('global_shader_stages', [mkref(module)]), assume=assume,
                          anchors=['global_shader_stages', 'update_stages'])

        def uses(name, g):
            k = dict((n_, k_) for n_, _, k_ in MU_FUNCS)[name]
            return z3.Or([(terms[(name, i)] == gl_h[g]) if (name, i) in terms else z3.BoolVal(g == 'a') for i in range(k)])
        want = {}
        for g in gl_h:
            w0 = z3.If(z3.Or(uses('e0', g), uses('helper', g)), z3.BitVecVal(STAGE_BIT[1], 32), z3.BitVecVal(0, 32))
            w1 = z3.If(uses('e1', g), z3.BitVecVal(STAGE_BIT[2], 32), z3.BitVecVal(0, 32))
            want[g] = w0 | w1
        for pc, kind, out, _ in res:
            if kind == 'panic':
                raise Inconclusive(f'multi-use harness: stage walk panicked: {out}')
            got = {k: flag_bits(v) for k, v in out.entries}
            bad = [(g, got.get(g, 0) != want[g]) for g in gl_h if g != 'p']        # what is recorded for a non-resource variable is nobody's business
            m = ctx.check(pc, z3.Or([b for _, b in bad]))
            if m is None:
                continue
            key = 'C03/stage-set/multi-use'
            seen[key] = seen.get(key, 0) + 1
            if seen[key] > 1:
                continue
            inv = {v: k for k, v in gl_h.items()}
            choice = {k: inv[model_value(m, t)] for k, t in terms.items()}
            wsrc = mu_render(choice)
            refs_txt = ['a'] * MU_FIXED_PREFIX.get(sym_fn, 0) + [choice[k_] for k_ in sorted(choice)]
            vis = real_visibility(ctx, wsrc)
            exp = {g: model_value(m, want[g]) for g in gl_h if g != 'p'}            # the private variable has no visibility to read back
            if exp.get('pc') == 0:
                exp['pc'] = STAGE_BIT[1] | STAGE_BIT[2]                             # unused push constant: all entry stages
            rep = {g: vis.get(g) for g in exp} != exp
            ctx.report(key, f'stage sets {vis} differ from static use {exp} when {sym_fn} references {refs_txt}',
                       {'wgsl': wsrc, 'options': OPTS}, rep, {'real': vis, 'expected': exp})
        ctx.vacuity_witness('multi-use stage map reachable', res[0][0])


def wrappers(ctx, seen):
    """a helper that mentions NO global and only calls another void helper (a pure wrapper), reached from one entry point while an
    entry point of another stage does not use the resource: the walk must go through functions that look like leaves"""
    for kind in ('v', 'r'):
        tpl = Template(2, [1, 2], ['plain', 'if_accept'])
        hs = [f for f in tpl.funcs if f['kind'] == kind]
        low, top = hs[0], hs[-1]
        top['slots']['use'].value = NOUSE
        top['slots']['callv'].value = [f for f in tpl.funcs if f['kind'] == 'v'][0]['name']        # wrapper -> low void helper
        if kind == 'v':
            top['slots']['callr'].value = NOUSE          # no CallResult expression either: the wrapper has no expression naming a global or a call result
        if kind == 'r':
            top['slots']['callv'].value = None
            top['slots']['callr'].value = low['name']                                               # value wrapper -> low value helper
        tpl.entries[1]['slots']['use'].value = 'u0'
        e0 = tpl.entries[0]
        sym = [e0['ctx']['plain'], e0['ctx']['if_accept'], e0['slots']['callr'],
               [f for f in tpl.funcs if f['kind'] == 'v'][0]['slots']['use'], [f for f in tpl.funcs if f['kind'] == 'r'][0]['slots']['use']]
        module, info = build(ctx, tpl, sym, [])
        label = f'global_shader_stages/pure-wrapper-{kind}'
        res = ctx.explore(label, lambda it: it.call('global_shader_stages', [mkref(module)]), assume=info['assume'],
                          anchors=['global_shader_stages', 'update_stages', 'update_stages_blocks'])
        check_stage_map(ctx, label, tpl, info, res, seen)


def replay_mask(ctx, b):
    """native replay of a stage-mask counterexample: a shader whose single uniform is used by exactly those stages"""
    uses = {0: 'let a = u.x;', 1: 'let a = u.x;', 2: 'let a = u.x;'}
    parts = ['@group(0) @binding(0) var<uniform> u: vec4<f32>;']
    if b & 1:
        parts.append('@vertex fn v() -> @builtin(position) vec4<f32> { let a = u.x; return vec4<f32>(a); }')
    if b & 2:
        parts.append('@fragment fn f() { let a = u.x; }')
    if b & 4:
        parts.append('@compute @workgroup_size(1) fn c() { let a = u.x; }')
    src = '\n'.join(parts)
    vis = real_visibility(ctx, src)
    return vis.get('u') != b, {'wgsl': src, 'real': vis.get('u'), 'expected': b}


def check_lookup(ctx, seen):
    """bind_group_layout_entry: visibility = map[name] or NONE;  push_constant_range_stages: map[name] or entry stages"""
    S, c = ctx.S, ctx.S.conv
    bits = z3.BitVec('map_bits', 32)
    present = z3.Bool('name_in_map')
    order = S.local_structs.get('GroupBinding')
    ty = Agg('Type', [none(), c.enum('TypeInner', 'Sampler', [False])])

    def go(it):
        vals = {'name': some('res'), 'binding_index': 0, 'binding_type': mkref(ty), 'address_space': c.enum('AddressSpace', 'Handle')}
        gb = Agg('GroupBinding', [vals[k] for k in order])
        stages = BTreeV()
        stages.entries.append(['aaa', mkflags('wgpu::ShaderStages', 1)])
        if it.truth(present):
            stages.entries.append(['res', mkflags('wgpu::ShaderStages', bits)])
        stages.entries.append(['zzz', mkflags('wgpu::ShaderStages', 4)])
        return it.call('bind_group_layout_entry', [mkref(gb), mkref(stages)])
    res = ctx.explore('bind_group_layout_entry/lookup', go, assume=[z3.ULT(bits, 8)], anchors=['bind_group_layout_entry'])
    for pc, kind, out, _ in res:
        if kind == 'panic':
            raise Inconclusive('lookup harness panicked: ' + out)
        d = decode_bgl_entry(out.toks)
        m = ctx.check(pc, z3.If(present, bits, z3.BitVecVal(0, 32)) != d['visibility'])
        if m is not None:
            b, p = model_value(m, bits), model_value(m, present)
            rep = replay_mask(ctx, b if p else 0)
            ctx.report('C03/lookup', f'visibility {d["visibility"]} emitted for a variable whose stage set is {b if p else "absent"}',
                       rep[1], rep[0], rep[1])
    # push constant: module with a push constant, stage map symbolic
    src = 'var<push_constant> pc: vec4<f32>;\n@fragment fn f() {}\n@compute @workgroup_size(1) fn c() {}\n'
    module = S.module(src)
    es = z3.BitVec('entry_stages', 32)

    def go2(it):
        stages = BTreeV()
        if it.truth(present):
            stages.entries.append(['pc', mkflags('wgpu::ShaderStages', bits)])
        return it.call('push_constant_range_stages', [mkref(module), mkref(stages), mkflags('wgpu::ShaderStages', es)])
    res = ctx.explore('push_constant_range_stages/lookup', go2, assume=[z3.ULT(bits, 8), z3.ULT(es, 8)],
                      anchors=['push_constant_range_stages', 'quote_shader_stages'])
    for pc, kind, out, _ in res:
        if kind == 'panic':
            raise Inconclusive('push constant harness panicked: ' + out)
        if out.disc != 1:
            ctx.report('C03/push-constant-missing', 'no push constant range for a module with a push constant', {'wgsl': src}, False)
            continue
        rng, st = out.fields[0].fields
        val = T.eval_stages(st.toks)
        m = ctx.check(pc, z3.If(present, bits, es) != val)
        if m is not None:
            b, p, e = model_value(m, bits), model_value(m, present), model_value(m, es)
            # native replay: a push constant used by exactly the stages in b (or unused)
            rep, det = replay_pc(ctx, b if p else None)
            ctx.report('C03/push-constant-stages', f'PUSH_CONSTANT_STAGES = {val} for use set {b if p else "absent"}, entry stages {e}', det, rep, det)


def replay_pc(ctx, b):
    parts = ['var<push_constant> pc: vec4<f32>;']
    use = lambda on: 'let a = pc.x;' if on else ''
    parts.append(f'@vertex fn v() -> @builtin(position) vec4<f32> {{ {use(b is not None and b & 1)} return vec4<f32>(0.0); }}')
    parts.append(f'@fragment fn f() {{ {use(b is not None and b & 2)} }}')
    parts.append(f'@compute @workgroup_size(1) fn c() {{ {use(b is not None and b & 4)} }}')
    src = '\n'.join(parts)
    vis = real_visibility(ctx, src)
    exp = 7 if not b else b
    return vis.get('pc') != exp, {'wgsl': src, 'real': vis.get('pc'), 'expected': exp}


def native(ctx):
    """supplement when the symbolic part is inconclusive: random fillings of the whole template (every slot, every stage), expected
    stage sets by plain reachability over the chosen values, compared with what the REAL generator emits"""
    n = 40 if ctx.tier == 'quick' else 400
    reported = False
    for k in range(n):
        tpl = Template(3, [ctx.rng.randrange(3) for _ in range(3)], CONTEXTS)
        names_v = [f['name'] for f in tpl.funcs if f['kind'] == 'v']
        names_r = [f['name'] for f in tpl.funcs if f['kind'] == 'r']
        idx = {f['name']: f['index'] for f in tpl.funcs}
        for s_ in tpl.slots:
            own = idx.get(s_.owner, 10 ** 6)
            if s_.kind == 'use':
                s_.value = ctx.rng.choice([None] * 2 + [g[0] for g in GLOBALS])
            else:
                pool = [x for x in (names_v if s_.kind == 'callv' else names_r) if idx[x] < own]
                s_.value = ctx.rng.choice([None] * 2 + pool) if pool else None
        uses = {}
        for f in sorted(tpl.funcs, key=lambda f: f['index']):
            u = set()
            if f['slots']['use'].value:
                u.add(f['slots']['use'].value)
            for kk in ('callv', 'callr'):
                if f['slots'][kk].value:
                    u |= uses[f['slots'][kk].value]
            uses[f['name']] = u
        want = {g[0]: 0 for g in GLOBALS}
        stages = []
        for e in tpl.entries:
            u = set()
            if e['slots']['use'].value:
                u.add(e['slots']['use'].value)
            for s_ in [e['slots']['callr']] + list(e['ctx'].values()):
                if s_.value:
                    u |= uses[s_.value]
            for g in u:
                want[g] |= STAGE_BIT[e['stage']]
            stages.append(e['stage'])
        if want['pc'] == 0:
            for st in set(stages):
                want['pc'] |= STAGE_BIT[st]
        src = tpl.render(None, k % 4)
        for von in (False, True):
            try:
                vis = real_visibility(ctx, src, validate=von)
            except Inconclusive:
                if von:
                    continue          # the validator may reject a random filling (e.g. writable storage in a vertex stage): not an accepted shader
                raise
            got = {g[0]: vis.get(g[0]) for g in GLOBALS}
            if got != want:
                if not reported:
                    reported = True
                    ctx.report('C03/native', f'real generator emits visibility {got}, static use says {want} (validate={von})',
                               {'wgsl': src, 'options': dict(OPTS, validate=von)}, True, {'real': got, 'expected': want})
            else:
                ctx.replayed_ok += 1
    ctx.sample({'random template fillings compared natively': n})


if __name__ == '__main__':
    sys.exit(main('C03', run, native))
