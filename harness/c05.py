"""C05  Bytemuck layout checks make a compiling struct match the WGSL layout.

Real code executed symbolically: structs / rust_struct (assertion construction) / add_types_recursive.
Symbolic: every member offset and every struct span (all of u32), the four derive switches, the representation.
Oracle: assertions present iff (bytemuck host-shareable switch AND the struct is reachable from a module-scope variable);
one `offset_of!(S, f) == offset(f)` per emitted field with the same identifiers as the struct item, one
`size_of::<S>() == span(S)`; nothing else.  Given that, "compiles => layout equal" is the semantics of
`const _: () = assert!(..)`.
"""
import z3
from harness.common import *
from harness.structs_common import *

SRC = '''struct Inner { a: f32, b: vec3<f32> }
struct Host { x: f32, y: vec3<f32>, inner: Inner, arr: array<Inner, 2>, z: atomic<u32> }
struct Uni { m: mat4x4<f32>, v: vec2<f32> }
struct VOnly { @location(0) p: vec4<f32>, @builtin(vertex_index) vi: u32, @location(1) q: vec2<f32> }
struct VBoth { @location(0) p: vec3<f32>, @location(1) w: f32 }
struct WorkOnly { k: u32, l: vec2<u32> }
struct Deep { @location(4) a: f32, @location(5) b: vec2<f32> }
struct Sprite { uv: mat2x2<f32>, layer: f32 }
@group(0) @binding(6) var<storage, read> sprites: array<Sprite, 3>;
struct Mx { n: mat3x3<f32>, s: f32, m23: mat2x3<f32>, m43: mat4x3<f32>, arr: array<mat3x3<f32>, 2> }
@group(0) @binding(7) var<uniform> mx: Mx;
struct Light { c: vec4<f32> }
struct Inst { @location(11) m: vec4<f32> }
struct Scene { first: Inst, key: Light, fill: Light }
@group(0) @binding(5) var<storage, read> scene: Scene;
struct HB { @builtin(instance_index) ii: u32, @location(6) p: vec4<f32>, @builtin(vertex_index) vi: u32, @location(7) q: vec2<f32>, @location(8) r: f32 }
@group(0) @binding(4) var<storage, read> hb: array<HB, 2>;
@group(0) @binding(3) var<storage, read> grid: array<array<Deep, 2>, 3>;
@group(0) @binding(0) var<storage, read_write> host: Host;
@group(0) @binding(1) var<uniform> uni: Uni;
@group(0) @binding(2) var<uniform> vboth: VBoth;
var<workgroup> wg: WorkOnly;
@vertex fn vs(a: VOnly, b: VBoth, c: Deep, d: HB, e: Inst) -> @builtin(position) vec4<f32> { return a.p; }
@compute @workgroup_size(1) fn cs() { wg.k = 1u; }
'''
HOST_SHAREABLE = {'Inner': True, 'Host': True, 'Uni': True, 'VOnly': False, 'VBoth': True, 'WorkOnly': True, 'Deep': True, 'HB': True,
                  'Light': True, 'Inst': True, 'Scene': True,
                  'Sprite': True, 'Mx': True}     # WGSL size 24: not a multiple of 16 although it holds a mat2x2 (16-aligned in glam, 8-aligned in WGSL)      # Inst: entry argument AND nested next to a struct that is met twice


def run(ctx):
    S, c = ctx.S, ctx.S.conv
    d = S.dump(SRC)
    mj = d['module']
    module = c.module(d)
    named = type_handles(mj)
    types = c.get(module, 'types').fields[0].items
    offs, spans, members = {}, {}, {}
    module.sym_types = set()
    for name, h in named.items():
        inner = c.get(types[h], 'inner')
        ms = inner.fields[0].items
        members[name] = []
        for mb, mjm in zip(ms, mj['types'][h]['inner']['Struct']['members']):
            t = z3.BitVec(f'{name}_{mjm["name"]}_offset', 32)
            c.set(mb, 'offset', t)
            offs[(name, mjm['name'])] = t
            members[name].append((mjm['name'], 'BuiltIn' in (mjm['binding'] or {})))
        sp = z3.BitVec(f'{name}_span', 32)
        inner.fields[1] = sp
        spans[name] = sp
        module.sym_types.add(h)
    o = {k: z3.Bool(k) for k in ('derive_bytemuck_vertex', 'derive_bytemuck_host_shareable', 'derive_encase_host_shareable', 'derive_serde')}
    fmt = z3.BitVec('matrix_vector_types', 64)
    ctx.bounds = {'structs': list(named), 'offsets and spans': 'all of u32 (symbolic)', 'options': '2^4 switches x 3 representations (symbolic)'}
    ctx.assumptions += ['naga\'s member.offset / struct span ARE the WGSL layout numbers (computed by naga\'s front end; outside reach)',
                        'the Layouter is modelled: size of a struct = its span (naga proc/layouter.rs), cross-checked against the real Layouter on every concrete type',
                        'reachability from module-scope variables is concrete here (symbolic in C08)']
    res = ctx.explore('structs/symbolic-layout-and-options',
                      lambda it: it.call('structs', [mkref(module), write_options(S.conv, matrix_vector_types=fmt, **o)]),
                      assume=[z3.ULT(fmt, 3)], anchors=['structs', 'rust_struct', 'add_types_recursive'])
    seen = {}
    for pc, kind, out, _ in res:
        if kind == 'panic':
            m = ctx.witness(pc)
            ctx.report('C05/panic', f'structs panics: {out}', {'wgsl': SRC}, False)
            continue
        sts, order = decode_structs(out.toks)
        conds = conditions(sts, members, offs, spans, o['derive_bytemuck_host_shareable'])
        m = ctx.check(pc, z3.Or([z3.Not(c_) for _, c_ in conds]))
        if m is None:
            continue
        failed = [n for n, c_ in conds if not z3.is_true(m.eval(c_, model_completion=True))]
        key = 'C05/' + failed[0]
        seen[key] = seen.get(key, 0) + 1
        if seen[key] > 1:
            continue
        rep, det = replay(ctx, mj, named, {k: model_value(m, v) for k, v in o.items()}, model_value(m, fmt), failed[0])
        ctx.report(key, f'"{failed[0]}" with options { {k: model_value(m, v) for k, v in o.items()} }', det, rep, det)
    oks = [r for r in res if r[1] == 'ok']
    ctx.vacuity_witness('layout assertions reachable', oks[0][0])
    for r in oks[:: max(1, len(oks) // (4 if ctx.tier == 'quick' else 48))]:
        m = ctx.witness(r[0])
        opts = {k: model_value(m, v) for k, v in o.items()}
        opts['matrix_vector_types'] = ['Rust', 'Glam', 'Nalgebra'][model_value(m, fmt)]
        ctx.differential(SRC, opts)
        ctx.sample({'options': opts})
    ctx.extra['violations_by_rule'] = seen


def conditions(sts, members, offs, spans, switch, concrete=None):
    B = z3.BoolVal
    conds = []
    conds.append(('no assertion refers to a struct that is not emitted', B('?orphan_asserts' not in sts)))
    for name, hs in HOST_SHAREABLE.items():
        st = sts.get(name)
        if st is None:
            conds.append((f'{name}: emitted', B(False)))
            continue
        want_fields = [n for n, builtin in members[name] if not builtin]
        conds.append((f'{name}: fields', B([f[0] for f in st['fields']] == want_fields)))
        a = st['asserts']
        present = len(a) > 0
        conds.append((f'{name}: assertions present iff bytemuck host-shareable and host-shareable', (switch if hs else B(False)) == B(present)))
        if present:
            sizes = [x for x in a if x['field'] is None]
            conds.append((f'{name}: exactly one size assertion', B(len(sizes) == 1)))
            for x in sizes[:1]:
                conds.append((f'{name}: size assertion carries the WGSL size', eq64(x['value'], spans[name])))
            fo = [x for x in a if x['field'] is not None]
            conds.append((f'{name}: one offset assertion per emitted field, same identifiers', B([x['field'] for x in fo] == want_fields)))
            for x in fo:
                if (name, x['field']) in offs:
                    conds.append((f'{name}.{x["field"]}: offset assertion carries the WGSL offset', eq64(x['value'], offs[(name, x['field'])])))
    return conds


def eq64(v, term):
    if is_sym(v):
        return v == (z3.ZeroExt(v.size() - term.size(), term) if is_sym(term) and term.size() < v.size() else term)
    if is_sym(term):
        return z3.ZeroExt(32, term) == z3.BitVecVal(v, 64)
    return z3.BoolVal(v == term)


def replay(ctx, mj, named, opts, fmt, failed):
    """native: same conditions with the real offsets / spans naga computed"""
    o = dict(opts, matrix_vector_types=['Rust', 'Glam', 'Nalgebra'][fmt])
    kind, toks, _ = ctx.gen_tokens(SRC, o)
    det = {'wgsl': SRC, 'options': o}
    if kind != 'ok':
        det['real'] = f'{kind}: {toks}'
        return True, det
    try:
        sts, order = decode_structs(toks)
    except T.DecodeError as e:
        # the property needs plain `offset_of!(S, f) == N` / `size_of::<S>() == N` assertions: anything weaker does not pin the layout
        det['failed'] = [f'layout assertion of another shape: {e}']
        return True, det
    offs, spans, members = {}, {}, {}
    for name, h in named.items():
        st = mj['types'][h]['inner']['Struct']
        spans[name] = st['span']
        members[name] = [(m['name'], 'BuiltIn' in (m['binding'] or {})) for m in st['members']]
        for m in st['members']:
            offs[(name, m['name'])] = m['offset']
    conds = conditions(sts, members, offs, spans, z3.BoolVal(opts['derive_bytemuck_host_shareable']))
    bad = [n for n, c_ in conds if not z3.is_true(z3.simplify(c_))]
    det['failed'] = bad
    return bool(bad), det


def native(ctx):
    d = ctx.S.dump(SRC)
    mj = d['module']
    named = type_handles(mj)
    done = False
    for bits in range(16):
        for fmt in range(3):
            opts = {'derive_bytemuck_vertex': bool(bits & 1), 'derive_bytemuck_host_shareable': bool(bits & 2),
                    'derive_encase_host_shareable': bool(bits & 4), 'derive_serde': bool(bits & 8)}
            rep, det = replay(ctx, mj, named, opts, fmt, '')
            if rep and not done:
                done = True
                ctx.report('C05/native', f'options {opts}: {det.get("failed") or det.get("real")}', det, True, det)
            elif not rep:
                ctx.replayed_ok += 1

if __name__ == '__main__':
    sys.exit(main('C05', run, native))
