"""C07  Vertex buffer layouts mirror the vertex input structs.

Real code executed symbolically: vertex_format, vertex_entry_structs, get_vertex_input_structs, vertex_input_structs /
vertex_struct_methods, vertex_states.
Symbolic: for every member of two vertex input structs its type (scalar / vector, size, kind, width) and its binding
(builtin or @location(l), l over all u32).  Four vertex entries share the structs in different argument orders; the same parameter NAME denotes different structs in
different entries (p: VC / VA / VB, q: VA / VB), so nothing may be keyed by parameter name.
"""
import re
import z3
from harness.common import *
from harness.decoders import struct_lit, lit_of, decode_entry_items
from harness.structs_common import TypeHole, set_inner, WGSL_SCALAR

SRC = '''struct VA { @location(0) a0: vec2<u32>, @builtin(vertex_index) a1: u32, @location(1) a2: vec3<u32> }
struct VB { @location(2) b0: vec4<u32>, @location(3) b1: vec2<i32> }
struct VC { @builtin(vertex_index) c0: u32, @builtin(instance_index) c1: u32 }
@vertex fn e3(p: VC, q: VA) -> @builtin(position) vec4<f32> { return vec4<f32>(0.0); }
@vertex fn e0(p: VA, q: VB) -> @builtin(position) vec4<f32> { return vec4<f32>(0.0); }
@vertex fn e1(p: VB) -> @builtin(position) vec4<f32> { return vec4<f32>(0.0); }
@vertex fn e2(q: VB, @location(30) extra: f32, p: VA) -> @builtin(position) vec4<f32> { return vec4<f32>(0.0); }
@group(0) @binding(0) var<storage, read> gl: array<VB, 2>;
var<private> gp: array<VA, 2>;
@fragment fn fs() {}
'''
# roles of the vertex structs elsewhere in the module (symbolic in every run): what the fragment entry returns and the type of `gl`
ROLE_RESULT = [None, 'VA', 'VB', 'VC']
ROLE_GLOBAL = ['array<VB, 2>', 'array<VA, 2>', 'VA', 'VB', 'VC']
MEMBERS = {'VA': ['a0', 'a1', 'a2'], 'VB': ['b0', 'b1'], 'VC': ['c0', 'c1']}
PLACE = {'a0': ('Vector', 'Bi', 'Uint'), 'a2': ('Vector', 'Tri', 'Uint'), 'b0': ('Vector', 'Quad', 'Uint'), 'b1': ('Vector', 'Bi', 'Sint')}


def fmt_sem(name):
    m = re.match(r'^(Uint|Sint|Unorm|Snorm|Float)(8|16|32|64)(x([234]))?(Bgra)?$', name)
    if not m:
        return None
    return {'kind': m.group(1), 'width': int(m.group(2)) // 8, 'n': int(m.group(4) or 1), 'norm': m.group(1) in ('Unorm', 'Snorm')}


def decode_vertex_impls(toks):
    its = T.items(toks)
    out = {}
    for im in T.find_items(its, 'impl'):
        fns = T.items(T.body_of(im))
        cst = T.find_items(fns, 'const', 'VERTEX_ATTRIBUTES')
        if not cst:
            continue
        name = im.name
        rec = {'count_impls': out.get(name, {}).get('count_impls', 0) + 1}
        ty, val = T.const_parts(cst[0])
        arr_ty = ty[0]
        if not T.is_g(arr_ty, '[]'):
            raise T.DecodeError('VERTEX_ATTRIBUTES type')
        parts = arr_ty.v[1]
        semi = next(i for i, t in enumerate(parts) if T.is_p(t, ';'))
        rec['n'] = lit_of(parts[semi + 1])
        rec['elem'] = T.text(parts[:semi])
        attrs = []
        for a in T.split_commas(val[0].v[1]):
            fl = struct_lit(a, 'wgpu', 'VertexAttribute')
            if set(fl) != {'format', 'offset', 'shader_location'}:
                raise T.DecodeError('VertexAttribute fields')
            f = T.text(fl['format'])
            mf = re.match(r'^wgpu :: VertexFormat :: (\w+)$', f)
            mo = re.match(r'^std :: mem :: offset_of ! \((\w+) , (\w+)\) as u64$', T.text(fl['offset']))
            if not mf or not mo:
                raise T.DecodeError('VertexAttribute: ' + T.text(a))
            attrs.append({'format': mf.group(1), 'of_struct': mo.group(1), 'of_field': mo.group(2), 'location': lit_of(fl['shader_location'][0])})
        rec['attrs'] = attrs
        fn = T.find_items(fns, 'fn', 'vertex_buffer_layout')
        if fn:
            gen, params, ret, body = T.fn_parts(fn[0])
            fl = struct_lit(body, 'wgpu', 'VertexBufferLayout')
            rec['layout'] = {k: T.text(v) for k, v in fl.items()}
            rec['layout_sig'] = (T.text(params), T.text(ret))
        out[name] = rec
    return out


def run(ctx):
    S, c = ctx.S, ctx.S.conv
    d = S.dump(SRC)
    mj = d['module']
    E = S.schema['enums']
    B_ = {v['name']: v['disc'] for v in E['Binding']}

    def find(kind, size, sk):
        return next(i for i, t in enumerate(mj['types']) if t['inner'].get(kind) == {'scalar': {'kind': sk, 'width': 4}, 'size': size})
    quick = ctx.tier == 'quick'
    ctx.bounds = {'vertex structs': MEMBERS, 'entries': 'e0(VA, VB), e1(VB), e2(VB, builtin, VA)',
                  'member type': 'scalar or vector, size / kind / width symbolic (WGSL-expressible: i32 u32 f32 f64)', 'location': 'all of u32; builtin vs location symbolic',
                  'roles elsewhere': f'fragment entry returns nothing or one of {ROLE_RESULT[1:]}; a storage global has type one of {ROLE_GLOBAL} (symbolic in every run)'}
    ctx.assumptions += ['vertex format table: kind / width / component count are read off the wgpu_types::VertexFormat variant name (Float32x3 ...)',
                        'offset and stride are emitted as offset_of!/size_of of the Rust struct: they satisfy wgpu\'s "offset + format size <= stride" and alignment rules '
                        'because the struct is #[repr(C)] and the field type has the same scalar width and component count as the format (C06); not re-proved here',
                        '@location numbers within one struct are distinct (WGSL)']
    seen = {}
    plans = [['a0'], ['a1'], ['a2', 'b1']] if quick else [['a0', 'a1'], ['a2', 'b1'], ['b0', 'a1'], ['a0', 'a2']]
    for plan in plans:
        module = c.module(S.dump(SRC))
        types = c.get(module, 'types').fields[0].items
        named = {t['name']: i for i, t in enumerate(mj['types']) if t['name']}
        holes, binds, assume = {}, {}, []
        for sname, ms in MEMBERS.items():
            members = c.get(types[named[sname]], 'inner').fields[0].items
            for mb, mname in zip(members, ms):
                bk = z3.BitVec(f'{mname}_binding_kind', 64)
                loc = z3.BitVec(f'{mname}_location', 32)
                if mname in plan:
                    c.set(mb, 'binding', some(c.sym_enum('Binding', bk, {'BuiltIn': [Opaque('builtin')], 'Location': [loc, False, none(), none()]})))
                    assume.append(z3.ULT(bk, 2))
                    binds[mname] = (bk, loc)
                    if mname in PLACE:
                        h = TypeHole(ctx, mname)
                        kind, size, sk = PLACE[mname]
                        set_inner(ctx, module, find(kind, size, sk), h.inner(ctx))
                        assume += h.assumption()
                        assume += [z3.Or(h.tdisc == h.TI['Scalar'], h.tdisc == h.TI['Vector']), h.kind != h.SK['Bool']]
                        holes[mname] = h
                else:
                    jb = mj['types'][named[sname]]['inner']['Struct']['members'][ms.index(mname)]['binding']
                    binds[mname] = (B_['Location'], jb['Location']['location']) if 'Location' in jb else (B_['BuiltIn'], 0)
        # roles elsewhere in the module: result type of the fragment entry, type of the global `gl`
        arr_h = {}
        for i_, t_ in enumerate(mj['types']):
            a_ = t_['inner'].get('Array')
            if a_ and a_['base'] in (named['VA'], named['VB']):
                arr_h['array<VA, 2>' if a_['base'] == named['VA'] else 'array<VB, 2>'] = i_
        role_h = dict(arr_h, VA=named['VA'], VB=named['VB'], VC=named['VC'])
        has_res, res_ty, gl_ty = z3.Bool('fs_returns_struct'), z3.BitVec('fs_result_type', 32), z3.BitVec('gl_type', 32)
        fr_vals = {'ty': res_ty, 'binding': none()}
        fr = Agg('FunctionResult', [fr_vals[k] for k, _ in c.S['FunctionResult']])
        eps = c.get(module, 'entry_points').items
        fs_i = next(i_ for i_, e_ in enumerate(mj['entry_points']) if e_['name'] == 'fs')
        c.set(c.get(eps[fs_i], 'function'), 'result', Agg('Option', {'Some': [fr], 'None': []}, disc=z3.If(has_res, z3.BitVecVal(1, 64), z3.BitVecVal(0, 64))))
        gvs = c.get(module, 'global_variables').fields[0].items
        gl_i = next(i_ for i_, g_ in enumerate(mj['global_variables']) if g_['name'] == 'gl')
        c.set(gvs[gl_i], 'ty', gl_ty)
        assume.append(z3.Or([res_ty == role_h[k] for k in ROLE_RESULT if k]))
        assume.append(z3.Or([gl_ty == role_h[k] for k in ROLE_GLOBAL]))
        inv_role = {v: k for k, v in role_h.items()}
        roles_of = lambda m_: {'fs_result': inv_role[model_value(m_, res_ty)] if model_value(m_, has_res) else None, 'gl_type': inv_role[model_value(m_, gl_ty)]}
        for sname, ms in MEMBERS.items():
            for i in range(len(ms)):
                for j in range(i):
                    (k1, l1), (k2, l2) = binds[ms[i]], binds[ms[j]]
                    if any(is_sym(x) for x in (k1, l1, k2, l2)):
                        assume.append(z3.Implies(z3.And(k1 == B_['Location'], k2 == B_['Location']), l1 != l2))

        def go(it):
            a = it.call('vertex_struct_methods', [mkref(module)])
            b = it.call('vertex_states', [mkref(module)])
            return TokStream(a.toks + b.toks)
        res = ctx.explore(f'vertex_struct_methods+vertex_states/symbolic-{"+".join(plan)}', go, assume=assume,
                          anchors=['vertex_format', 'vertex_entry_structs', 'get_vertex_input_structs', 'vertex_input_structs', 'vertex_states'], timeout_s=3000)
        for pc, kind, out, _ in res:
            if kind == 'panic':
                m = ctx.witness(pc)
                spell = {k: h.wgsl(m) for k, h in holes.items()}
                key = 'C07/refuses'
                seen[key] = seen.get(key, 0) + 1
                if seen[key] == 1:
                    src2 = render(spell, {k: (model_value(m, v[0]), model_value(m, v[1])) for k, v in binds.items() if is_sym(v[0])}, B_, roles_of(m))
                    k2, r2, _ = ctx.gen_tokens(src2, {}) if src2 else ('?', None, None)
                    ctx.report(key, f'generator panics ({out}) on WGSL-expressible vertex member types {spell}', {'wgsl': src2}, k2 == 'panic')
                continue
            conds = conditions(decode_vertex_impls(out.toks), decode_entry_items(out.toks), holes, binds, B_)
            m = ctx.check(pc, z3.Or([z3.Not(c_) for _, c_ in conds]))
            if m is None:
                continue
            failed = [n for n, c_ in conds if not z3.is_true(m.eval(c_, model_completion=True))]
            key = 'C07/' + failed[0].split(':')[-1].strip()
            seen[key] = seen.get(key, 0) + 1
            if seen[key] > 1:
                continue
            spell = {k: h.wgsl(m) for k, h in holes.items()}
            bv = {k: (model_value(m, v[0]), model_value(m, v[1])) for k, v in binds.items() if is_sym(v[0])}
            rep, det = replay(ctx, spell, bv, B_, mj, roles_of(m))
            ctx.report(key, f'{failed[0]} for member types {spell}, bindings {bv}, roles {roles_of(m)}', det, rep, det)
        oks = [r for r in res if r[1] == 'ok']
        ctx.vacuity_witness('vertex layout assertions reachable', oks[0][0])
        for r in oks[:: max(1, len(oks) // (3 if quick else 20))]:
            m = ctx.witness(r[0])
            spell = {k: h.wgsl(m) for k, h in holes.items()}
            bv = {k: (model_value(m, v[0]), model_value(m, v[1])) for k, v in binds.items() if is_sym(v[0])}
            src2 = render(spell, bv, B_, roles_of(m))
            if src2 and ctx.gen_tokens(src2, {})[0] == 'ok':
                ctx.differential(src2, {})
                ctx.sample({'members': spell, 'bindings(kind, location)': bv})
    ctx.differential(SRC, {'matrix_vector_types': 'Glam', 'derive_bytemuck_vertex': True})
    ctx.extra['violations_by_rule'] = seen


def conditions(impls, en, holes, binds, B_):
    B = z3.BoolVal
    conds = [('exactly one impl per vertex input struct (shared structs de-duplicated)', B(sorted(impls) == ['VA', 'VB', 'VC'] and all(v['count_impls'] == 1 for v in impls.values())))]
    for sname, ms in MEMBERS.items():
        I = impls.get(sname)
        if I is None:
            continue
        attrs = I['attrs']
        located = [(n, binds[n]) for n in ms]
        # expected attribute list: one per member whose binding is a location, in member order.  The path condition fixes which are.
        is_loc = [(n, (k == B_['Location']) if is_sym(k) else B(k == B_['Location']), l) for n, (k, l) in located]
        cnt = sum([z3.If(c_, 1, 0) for _, c_, _ in is_loc])
        conds.append((f'{sname}: one attribute per @location member (builtins contribute none)', cnt == len(attrs)))
        conds.append((f'{sname}: attribute count literal', B(I['n'] == len(attrs) and I['elem'] == 'wgpu :: VertexAttribute')))
        # match attributes to members in order: attribute j corresponds to the j-th located member
        for j, a in enumerate(attrs):
            alts = []
            for i, (n, c_, l) in enumerate(is_loc):
                before = sum([z3.If(c2, 1, 0) for _, c2, _ in is_loc[:i]]) if i else z3.IntVal(0)
                lt = l if is_sym(l) else z3.BitVecVal(l, 32)
                al = a['location']
                loc_ok = (z3.ZeroExt(32, lt) == al) if is_sym(al) else (z3.ZeroExt(32, lt) == z3.BitVecVal(al, 64))
                fs = fmt_sem(a['format'])
                if n in holes:
                    h = holes[n]
                    if fs is None or fs['norm']:
                        f_ok = B(False)
                    else:
                        f_ok = z3.And(h.kind == h.SK[fs['kind']], h.width == fs['width'],
                                      z3.If(h.tdisc == h.TI['Scalar'], B(fs['n'] == 1), h.vsize == fs['n']))
                else:
                    want = {'a0': ('Uint', 4, 2), 'a1': ('Uint', 4, 1), 'a2': ('Uint', 4, 3), 'b0': ('Uint', 4, 4), 'b1': ('Sint', 4, 2),
                            'c0': ('Uint', 4, 1), 'c1': ('Uint', 4, 1)}[n]
                    f_ok = B(fs is not None and (fs['kind'], fs['width'], fs['n']) == want and not fs['norm'])
                alts.append(z3.And(c_, before == j, loc_ok, f_ok, B(a['of_struct'] == sname and a['of_field'] == n)))
            conds.append((f'{sname}: attribute {j} carries its member\'s location, format and field offset', z3.Or(alts)))
        lay = I.get('layout')
        conds.append((f'{sname}: stride = size_of the struct, caller\'s step mode, own attribute table',
                      B(lay == {'array_stride': f'std :: mem :: size_of :: < {sname} > () as u64', 'step_mode': 'step_mode',
                                'attributes': f'& {sname} :: VERTEX_ATTRIBUTES'}
                        and I.get('layout_sig') == ('step_mode : wgpu :: VertexStepMode', "wgpu :: VertexBufferLayout < ' static >"))))
    v = en['vertex']
    want_entries = {'e0_entry': ['VA', 'VB'], 'e1_entry': ['VB'], 'e2_entry': ['VB', 'VA'], 'e3_entry': ['VC', 'VA']}
    sn = {'VA': 'v_a', 'VB': 'v_b', 'VC': 'v_c'}
    for fn, structs in want_entries.items():
        e = v.get(fn)
        conds.append((f'{fn}: one buffer layout per struct parameter in parameter order with the caller\'s step modes',
                      B(e is not None and e['n_ret'] == len(structs)
                        and e['buffers'] == [f'{s} :: vertex_buffer_layout ({sn[s]})' for s in structs]
                        and e['params'] == [(sn[s], 'wgpu :: VertexStepMode') for s in structs])))
    return conds


def render(spell, bv, B_, roles=None):
    if any(v is None for v in spell.values()):
        return None
    src = SRC
    if roles:
        src = src.replace('gl: array<VB, 2>;', f'gl: {roles["gl_type"]};')
        if roles['fs_result']:
            src = src.replace('@fragment fn fs() {}', f'@fragment fn fs() -> {roles["fs_result"]} {{ var o: {roles["fs_result"]}; return o; }}')
    default = {'a0': 'vec2<u32>', 'a1': 'u32', 'a2': 'vec3<u32>', 'b0': 'vec4<u32>', 'b1': 'vec2<i32>'}
    dattr = {'a0': '@location(0)', 'a1': '@builtin(vertex_index)', 'a2': '@location(1)', 'b0': '@location(2)', 'b1': '@location(3)'}
    nb = 0
    for n in default:
        ty = spell.get(n, default[n])
        attr = dattr[n]
        if n in bv:
            k, l = bv[n]
            if k == B_['Location']:
                attr = f'@location({l}u)'
            else:
                attr = '@builtin(vertex_index)' if nb == 0 and n != 'a1' and 'a1' in bv and bv['a1'][0] == B_['Location'] else '@builtin(instance_index)'
                ty = 'u32'
        if n == 'a1' and 'a1' not in bv:
            pass
        src = src.replace(f'{dattr[n]} {n}: {default[n]}', f'{attr} {n}: {ty}')
    return src


def replay(ctx, spell, bv, B_, mj, roles=None):
    src = render(spell, bv, B_, roles)
    if src is None:
        return False, {'note': 'no WGSL spelling'}
    kind, toks, _ = ctx.gen_tokens(src, {})
    det = {'wgsl': src}
    if kind != 'ok':
        det['real'] = f'{kind}: {str(toks)[:200]}'
        return kind == 'panic', det
    d2 = ctx.S.dump(src)['module']
    named = {t['name']: i for i, t in enumerate(d2['types']) if t['name']}
    bad = []
    impls = decode_vertex_impls(toks)
    for sname in MEMBERS:
        if sname not in named:
            continue
        want = []
        for mb in d2['types'][named[sname]]['inner']['Struct']['members']:
            b = mb['binding']
            if 'Location' in b:
                inner = d2['types'][mb['ty']]['inner']
                sc = inner.get('Scalar') or inner['Vector']['scalar']
                n = {'Bi': 2, 'Tri': 3, 'Quad': 4}[inner['Vector']['size']] if 'Vector' in inner else 1
                want.append((mb['name'], b['Location']['location'], sc['kind'], sc['width'], n))
        got = []
        for a in impls.get(sname, {'attrs': []})['attrs']:
            fs = fmt_sem(a['format']) or {}
            got.append((a['of_field'], a['location'], fs.get('kind'), fs.get('width'), fs.get('n')))
        if got != want or impls.get(sname, {}).get('n') != len(want):
            bad.append({sname: {'real': got, 'expected': want}})
    en = decode_entry_items(toks)['vertex']
    sn = {'VA': 'v_a', 'VB': 'v_b', 'VC': 'v_c'}
    for fn, structs in {'e0_entry': ['VA', 'VB'], 'e1_entry': ['VB'], 'e2_entry': ['VB', 'VA'], 'e3_entry': ['VC', 'VA']}.items():
        e = en.get(fn)
        good = (e is not None and e['n_ret'] == len(structs) and e['buffers'] == [f'{s_} :: vertex_buffer_layout ({sn[s_]})' for s_ in structs]
                and e['params'] == [(sn[s_], 'wgpu :: VertexStepMode') for s_ in structs])
        if not good:
            bad.append({fn: {'real': e, 'expected_struct_order': structs}})
    if sorted(impls) != ['VA', 'VB', 'VC'] or any(v['count_impls'] != 1 for v in impls.values()):
        bad.append({'impls': sorted(impls)})
    det['failed'] = bad
    return bool(bad), det


def native(ctx):
    S = ctx.S
    mj = S.dump(SRC)['module']
    B_ = {v['name']: v['disc'] for v in S.schema['enums']['Binding']}
    n = 30 if ctx.tier == 'quick' else 300
    types = ['f32', 'i32', 'u32', 'vec2<f32>', 'vec3<f32>', 'vec4<f32>', 'vec2<i32>', 'vec3<u32>', 'vec4<u32>', 'vec2<f64>', 'vec4<i32>', 'f64']
    done = False
    for i in range(n):
        names = ctx.rng.sample(['a0', 'a2', 'b0', 'b1'], 2)
        spell = {nm: ctx.rng.choice(types) for nm in names}
        locs = ctx.rng.sample([0, 1, 2, 3, 4, 9, 15, 2 ** 31], 2)
        bv = {nm: (B_['Location'], l) for nm, l in zip(names, locs)}
        rep, det = replay(ctx, spell, bv, B_, mj)
        if rep and not done:
            done = True
            ctx.report('C07/native', f'member types {spell}, bindings {bv}: {det.get("failed") or det.get("real")}', det, True, det)
        elif not rep:
            ctx.replayed_ok += 1

if __name__ == '__main__':
    sys.exit(main('C07', run, native))
