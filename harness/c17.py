"""C17  Parse and validation failures come back as errors; validation only gates.   (claimed for the crate's own logic)

Real code executed symbolically: create_shader_module_inner (both gates) and the four CreateModuleError::emit_* helpers.
Stubs: naga::front::wgsl::parse_str and Validator::validate are nondeterministic Results with opaque error payloads;
naga's own renderers are opaque and only their call arguments are recorded.
NOT covered (said so in the manifest): that naga's lexer / parser / validator never panic and render every diagnostic.
"""
import z3
from harness.common import *

FIXTURE = '/repo/wgsl_to_wgpu/src/data/bindgroup/compute.wgsl'
GEN_FUNCS = ('get_bind_group_data', 'global_shader_stages', 'structs', 'consts', 'bind_groups_module', 'vertex_states', 'fragment_states',
             'entry_point_constants', 'compute_module', 'pretty_print', 'pretty_print_rustfmt')


def run(ctx):
    S, c = ctx.S, ctx.S.conv
    src_text = open(FIXTURE).read()
    module = S.module(src_text)
    src = SymStr([('sym', 'SOURCE_TEXT')])        # the text is opaque: whatever the crate hands to the parser must be it
    E1, E2 = Opaque('naga ParseError payload'), Opaque('naga WithSpan<ValidationError> payload')
    validate_on = z3.Bool('validate_is_some')
    caps = z3.BitVec('capabilities', 32)
    ctx.stubs = ['naga::front::wgsl::parse_str -> Ok(fixture IR) | Err(opaque)', 'Validator::new (records flags and capabilities)',
                 'Validator::validate -> Ok | Err(opaque)', 'naga ParseError / WithSpan<ValidationError> emit_* (arguments recorded)']
    ctx.assumptions += ['naga itself (lexer, parser, validator, diagnostic rendering) is outside the claim: its behaviour on corrupted text cannot be encoded; '
                        'a corpus of corruptions is run through the real build each run as a supplement only']
    ctx.bounds = {'gates': 'parser ok/err x validation off / on with ANY capability bits x validator ok/err'}
    # the gates are explored under two option sets: validation must only gate whatever else is switched on
    for label_, derive in (('defaults', {}), ('all-derives', {'derive_bytemuck_vertex': True, 'derive_bytemuck_host_shareable': True, 'derive_serde': True,
                                                             'matrix_vector_types': 'Glam'})):
        logs = []

        def go(it):
            log = {}
            logs.append(log)

            def parse_str(it_, s):
                log['parse_arg'] = s
                okv = it_.truth(it_.fresh('parser_accepts', 'bool'))
                log['parse_ok'] = okv
                return ok(module) if okv else err(E1)

            def validate(it_, v, m):
                log['validator'] = v
                log['validated'] = m
                okv = it_.truth(it_.fresh('validator_accepts', 'bool'))
                log['valid_ok'] = okv
                return ok(Opaque('ModuleInfo')) if okv else err(E2)
            it.env['parse_str'], it.env['validate'] = parse_str, validate
            vo = Agg('Option', {'Some': [Agg('ValidationOptions', [Agg('Capabilities', [Agg('InternalBitFlags', [caps])])])], 'None': []},
                     disc=z3.If(validate_on, z3.BitVecVal(1, 64), z3.BitVecVal(0, 64)))
            return it.call('create_shader_module_inner', [src, none(), write_options(S.conv, validate=vo, **derive)])
        res = ctx.explore(f'create_shader_module_inner/gates/{label_}', go, anchors=['create_shader_module_inner'])
        ok_tokens = []
        flags_all = 0
        for v in S.schema['bitflags']['ValidationFlags']['flags'].values():
            flags_all |= v or 0
        for (pc, kind, out, calls), log in zip(res, logs):
            ctx.queries['discharged'] += 1
            m = ctx.witness(pc)
            von = model_value(m, validate_on)
            problems = []
            if kind == 'panic':
                problems.append(f'panics: {out}')
            elif not log.get('parse_ok'):
                if not (out.disc == 1 and out.fields[0].variant == 'ParseError' and out.fields[0].fields[0] is E1):
                    problems.append(f'parser error is returned as {out}')
                if 'validator' in log or any(f in calls for f in GEN_FUNCS):
                    problems.append('work continues after the parser failed')
            else:
                if von != ('validator' in log):
                    problems.append(f'validation {"skipped although requested" if von else "run although not requested"}')
                if 'validator' in log:
                    v = log['validator']
                    from mirsym.schema import flag_bits
                    fl, cp = flag_bits(v.fields[0]), flag_bits(v.fields[1])
                    if not (fl == flags_all and cp is caps) or deref(log['validated']) is not module:
                        problems.append(f'validator built with flags {fl} / capabilities {cp} on {type(deref(log["validated"])).__name__}')
                if 'validator' in log and not log.get('valid_ok'):
                    if not (out.disc == 1 and out.fields[0].variant == 'ValidationError' and out.fields[0].fields[0] is E2):
                        problems.append(f'validation error is returned as {out}')
                    if any(f in calls for f in GEN_FUNCS):
                        problems.append('generation runs although validation failed')
                else:
                    if out.disc != 0:
                        problems.append(f'accepted module returns {out}')
                    else:
                        ok_tokens.append((von, T.canon(out.fields[0].toks), pc))
            if not (log.get('parse_arg') == src):
                problems.append(f'parser was handed {log.get("parse_arg")!r} instead of the source text')
            if problems:
                ctx.queries['sat'] += 1
                rep, det = native(ctx, src_text)
                ctx.report('C17/' + problems[0].split(':')[0][:40], '; '.join(problems) + f' (validate={von})', det, rep, det)
            else:
                ctx.queries['unsat'] += 1
        # validation only gates: identical tokens with validation off / on (any capabilities)
        if ok_tokens:
            ref = ok_tokens[0][1]
            if {v for v, _, _ in ok_tokens} != {True, False}:
                raise Inconclusive('did not explore both validation settings on the accepting path')
            for von, tk, pc in ok_tokens[1:]:
                ctx.queries['discharged'] += 1
                if tk != ref:
                    ctx.queries['sat'] += 1
                    rep, det = native(ctx, src_text)
                    ctx.report('C17/validation-changes-output', 'enabling validation changes the generated tokens', det, rep, det)
                else:
                    ctx.queries['unsat'] += 1
    ctx.vacuity_witness('gate assertions reachable', res[0][0])
    # ---- the four emit_* helpers dispatch parse / validation errors to naga's renderer with the same source and path
    emit = {n: n for n in S.bodies if 'emit_to_' in n}
    if len(emit) != 4:
        raise Inconclusive(f'expected 4 emit_* bodies, found {sorted(emit)}')
    SRC_T, PATH_T = SymStr([('sym', 'SOURCE')]), SymStr([('sym', 'PATH')])
    for name in sorted(emit):
        for variant, payload in (('ParseError', E1), ('ValidationError', E2), ('NonConsecutiveBindGroups', None), ('DuplicateBinding', 7)):
            errv = Agg('CreateModuleError', [payload] if payload is not None else [], variant=variant,
                       disc={'NonConsecutiveBindGroups': 0, 'DuplicateBinding': 1, 'ParseError': 2, 'ValidationError': 3}[variant])
            rec = {}

            def go2(it):
                it.env['emit_calls'] = []
                it.env['stderr'] = []
                args = [mkref(errv), SRC_T] + ([PATH_T] if name.endswith('_with_path') else [])
                r = it.call(name, args)
                rec['calls'], rec['stderr'] = list(it.env['emit_calls']), list(it.env['stderr'])
                return r
            r = ctx.explore(f'{name.split("::")[-1]}/{variant}', go2, anchors=[name])
            ctx.queries['discharged'] += 1
            good = len(r) == 1 and r[0][1] == 'ok'
            if good and variant in ('ParseError', 'ValidationError'):
                calls = rec['calls']
                good = (len(calls) == 1 and calls[0][1][0] is payload and calls[0][1][1] == SRC_T
                        and (('ParseError' in calls[0][0]) == (variant == 'ParseError'))
                        and __import__('re').sub(r'::<[^<>]*>$', '', calls[0][0]).endswith(name.split('::')[-1])
                        and (not name.endswith('_with_path') or calls[0][1][2] == PATH_T or deref(calls[0][1][2]) == PATH_T))
            elif good:
                good = rec['calls'] == [] and (('stderr' in name) == (len(rec['stderr']) == 1))
            if good:
                ctx.queries['unsat'] += 1
            else:
                ctx.queries['sat'] += 1
                rep, det = native(ctx, src_text)
                ctx.report('C17/emit-dispatch', f'{name.split("::")[-1]} on {variant}: {r[0][1] if r else "?"} calls={rec.get("calls")}', det, rep, det)
    # ---- supplement: corruptions through the real build (naga is real here); nothing may panic, errors must render
    rep, det = native(ctx, src_text)
    if rep:
        ctx.report('C17/native-corpus', f'real build misbehaves on a corrupted source: {det.get("first")}', det, True, det)


def corruptions(src, rng, n):
    out = ['\ufeff' + src, src + '\ufeff', '\u200b' + src, ' \n' + src, src.replace('\n', '\r\n'), src.replace(' ', '\u00a0', 1),
           src[:len(src) // 2], src.replace('{', '', 1), src.replace(';', '', 1), src + ' @', src.replace('fn', 'f\U0001F600n', 1),
           src.replace('var', 'let', 1), src.replace('u32', 'u33', 1), '@group(0) @binding(0) var<uniform> a: f32;\n@group(0) @binding(0) var<uniform> b: f32;\n',
           'fn f() -> f32 { return 1; }',
           # rejected only by one validation class each (BINDINGS collision / missing binding, STRUCT_LAYOUTS, CONTROL_FLOW_UNIFORMITY, BLOCKS)
           '@group(0) @binding(0) var<uniform> a: f32;\n@group(0) @binding(0) var<uniform> b: f32;\n@fragment fn f() -> @location(0) vec4<f32> { return vec4<f32>(a + b); }',
           'var<uniform> x: f32;\n@fragment fn f() -> @location(0) vec4<f32> { return vec4<f32>(x); }',
           'struct S { a: f32, b: array<f32, 4> }\n@group(0) @binding(0) var<uniform> s: S;\n@fragment fn f() -> @location(0) vec4<f32> { return vec4<f32>(s.a); }',
           '@group(0) @binding(0) var t: texture_2d<f32>;\n@group(0) @binding(1) var sm: sampler;\n@fragment fn f(@location(0) u: vec2<f32>) -> @location(0) vec4<f32> { if (u.x > 0.5) { return textureSample(t, sm, u); } return vec4<f32>(0.0); }',
           '@vertex fn v(@location(0) p: vec4<f32>, @location(0) q: vec4<f32>) -> @builtin(position) vec4<f32> { return p + q; }', 'fn f() { let x: u32 = 1.5; }', '@fragment fn f() -> @location(0) vec4<f32> { return vec3<f32>(0.0); }']
    for _ in range(n):
        i = rng.randrange(len(src))
        j = min(len(src), i + rng.randrange(1, 6))
        out.append(src[:i] + src[j:])
        out.append(src[:i] + src[i:j][::-1] + src[j:])
    return out


VALID_EXOTIC = [
    # subgroup operation reached from a vertex entry: accepted only with SUBGROUP and SUBGROUP_VERTEX_STAGE (checked under SUBGROUP alone, 1 << 16)
    '@vertex fn v(@builtin(vertex_index) i: u32) -> @builtin(position) vec4<f32> { let s = subgroupAdd(i); return vec4<f32>(f32(s)); }\n',
    # valid shaders whose output must be the same with validation off / on (validation only gates)
    '@group(0) @binding(0) var tex: texture_2d<f32>;\n@group(0) @binding(1) var smp: sampler;\n@group(0) @binding(2) var<storage, read_write> buf: array<u32, 4>;\n'
    '@fragment fn f() { _ = tex; _ = smp; }\n@compute @workgroup_size(1) fn c() { let p = &buf; _ = tex; }\n',
    '@group(0) @binding(0) var<uniform> u: vec4<f32>;\nfn h() -> f32 { return u.x; }\n@vertex fn v() -> @builtin(position) vec4<f32> { return vec4<f32>(h()); }\n'
    '@fragment fn f() -> @location(0) vec4<f32> { return vec4<f32>(0.0); }\n',
    'var<push_constant> pc: vec4<f32>;\n@group(0) @binding(0) var<storage, read_write> a: array<atomic<u32>, 2>;\n'
    '@compute @workgroup_size(2, 3) fn c() { atomicAdd(&a[0], 1u); let n = arrayLength(&a2); }\n@group(0) @binding(1) var<storage, read> a2: array<f32>;\n',
    'override k: u32 = 2u;\nstruct S { a: f32, b: vec3<f32> }\n@group(0) @binding(0) var<uniform> s: S;\nconst C: f32 = 1.5;\n'
    '@fragment fn f() -> @location(0) vec4<f32> { var x = 0.0; for (var i = 0u; i < k; i++) { x += s.a; } return vec4<f32>(x * C); }\n',
]


def native(ctx, src):
    det = {'checked': 0, 'first': None}
    import glob as _glob
    valid = VALID_EXOTIC + [open(f).read() for f in sorted(_glob.glob('/repo/wgsl_to_wgpu/src/data/**/*.wgsl', recursive=True))]
    for s_, base in [(x, b) for x in valid for b in ({'derive_encase_host_shareable': True},
                                                      {'derive_bytemuck_vertex': True, 'derive_bytemuck_host_shareable': True, 'derive_serde': True,
                                                       'matrix_vector_types': 'Glam'})]:
        r0 = ctx.S.oracle.gen(s_, base)
        if 'ok' not in r0:
            continue              # not an input the generator accepts at all (under these options)
        for v in ((True, 3, 0, 1, 1 << 20, 1 << 16, (1 << 16) | (1 << 18)) if 'derive_encase_host_shareable' in base else (True, 0)):
            r1 = ctx.S.oracle.gen(s_, dict(base, validate=v))
            det['checked'] += 1
            # the real validator with exactly the caller's capability set is the reference for accept / reject
            ref = ctx.S.oracle.dump(s_, caps=(0xffffffff if v is True else v)).get('valid_caps')
            if ref is not None and ('ok' in r1) != ref:
                if det['first'] is None:
                    det['first'] = {'wgsl': s_, 'options': {'validate': v}, 'real': f'generation {"succeeds" if "ok" in r1 else "fails"} although naga\'s validator with these capabilities {"accepts" if ref else "rejects"} the module'}
            # a capability-restricted validator may reject; an accepting one must not change the text
            elif 'ok' in r0 and 'ok' in r1 and r0['ok'] != r1['ok']:
                if det['first'] is None:
                    det['first'] = {'wgsl': s_, 'options': dict(base, validate=v), 'real': 'output differs between validation off and on'}
            elif 'panic' in r1 or 'panic' in r0:
                if det['first'] is None and 'Runtime-sized' not in str(r0) + str(r1):
                    det['first'] = {'wgsl': s_, 'options': {'validate': v}, 'real': str(r1)[:200]}
            else:
                ctx.replayed_ok += 1
    for s in corruptions(src, ctx.rng, 20 if ctx.tier == 'quick' else 200):
        for opts in ({}, {'validate': True}, {'validate': 3}):
            r = ctx.S.oracle.emit(s, opts)
            det['checked'] += 1
            bad = 'panic' in r or 'crash' in r or ('err' in r and r['err'].get('kind') in ('ParseError', 'ValidationError') and not r.get('emit'))
            d = ctx.S.oracle.dump(s)
            if 'module' not in d and 'err' in d:
                # the real front end rejects this text: the generator must return exactly the parse error, never Ok
                if (r.get('err') or {}).get('kind') != 'ParseError':
                    bad = True
            if opts.get('validate') is True:
                if 'module' in d:
                    # the real validator (all flags, all capabilities) is the reference for what must be rejected
                    kind_ = (r.get('err') or {}).get('kind')
                    if (not d['valid']) != (kind_ == 'ValidationError'):
                        bad = True
            if 'ok' in r and opts:
                r0 = ctx.S.oracle.gen(s, {})
                r1 = ctx.S.oracle.gen(s, opts)
                bad = bad or r0 != r1
            if bad and det['first'] is None:
                det['first'] = {'wgsl': s, 'options': opts, 'real': str(r)[:300]}
            if not bad:
                ctx.replayed_ok += 1
    ctx.sample({'corrupted sources run through the real build': det['checked']})
    return det['first'] is not None, det




def native_fallback(ctx):
    src = open(FIXTURE).read()
    rep, det = native(ctx, src)
    if rep:
        ctx.report('C17/native-corpus', f'real build: {det.get("first")}', det, True, det)

if __name__ == '__main__':
    sys.exit(main('C17', run, lambda ctx: native_fallback(ctx)))
