"""C14  Entry point metadata matches the shader's entry points.

Real code executed symbolically: entry_point_constants, compute_module, create_compute_pipeline, workgroup_size,
fragment_target_count, fragment_states, vertex_states (through create_shader_module_inner, so the sections are also
checked to be present in the module that is returned).
Symbolic: @workgroup_size (3 x all of u32), the shape of the fragment result (none / bound value at @location(l) /
builtin / struct of 4 members each a builtin or @location(l_i), l over all u32), the stage of an extra entry point.
"""
import z3
from harness.common import *
from harness.decoders import decode_entry_items

NAMES = {'vs': 'vs_größeÄ', 'fs': 'fs_lumière', 'cs': 'cs_Main', 'extra': 'extra9ß'}
NMEMBERS = 4


def render(vals=None):
    v = vals or {'wg': (1, 2, 3), 'res': 'struct', 'members': [('loc', 0), ('builtin', 0), ('loc', 1), ('loc', 2)], 'loc': 0,
                 'extra_stage': 2, 'res2': 'none', 'loc2': 0}
    out = ['override scale: f32 = 1.0;' if v.get('ov_default', True) else 'override scale: f32;',
           'struct VIn { @location(0) a: vec4<f32>, @location(1) b: vec2<f32> }',
           'struct VInst { @location(2) m: vec4<f32> }', 'struct VBuiltins { @builtin(vertex_index) vi: u32, @builtin(instance_index) ii: u32 }']
    ms = []
    nb = 0
    sbs = v.get('second_blend_source') or [False] * len(v['members'])
    for i, (k, l) in enumerate(v['members']):
        if k == 'loc':
            ms.append(f'@location({l}u) ' + ('@second_blend_source ' if sbs[i] else '') + f'c{i}: vec4<f32>')
        else:
            ms.append(f'@builtin(frag_depth) c{i}: f32' if nb == 0 else f'@builtin(sample_mask) c{i}: u32')
            nb += 1
    out.append('struct FOut { ' + ', '.join(ms) + ' }')
    out.append(f'@vertex fn {NAMES["vs"]}(in: VIn, bi: VBuiltins, inst: VInst) -> @builtin(position) vec4<f32> '
               '{ return in.a + inst.m; }')
    if v['res'] == 'none':
        out.append(f'@fragment fn {NAMES["fs"]}() {{}}')
    elif v['res'] == 'loc':
        out.append(f'@fragment fn {NAMES["fs"]}() -> @location({v["loc"]}u) vec4<f32> {{ return vec4<f32>(0.0); }}')
    elif v['res'] == 'builtin':
        out.append(f'@fragment fn {NAMES["fs"]}() -> @builtin(frag_depth) f32 {{ return 0.0; }}')
    else:
        out.append(f'@fragment fn {NAMES["fs"]}() -> FOut {{ var o: FOut; return o; }}')
    x, y, z = v['wg']
    out.append(f'@compute @workgroup_size({x}u, {y}u, {z}u) fn {NAMES["cs"]}() {{}}')
    st = v['extra_stage']
    if st == 0:
        out.append(f'@vertex fn {NAMES["extra"]}() -> @builtin(position) vec4<f32> {{ return vec4<f32>(0.0); }}')
    elif st == 1:
        r2 = v.get('res2', 'none')
        if r2 == 'loc':
            out.append(f'@fragment fn {NAMES["extra"]}() -> @location({v["loc2"]}u) vec4<f32> {{ return vec4<f32>(0.0); }}')
        elif r2 == 'builtin':
            out.append(f'@fragment fn {NAMES["extra"]}() -> @builtin(frag_depth) f32 {{ return 0.0; }}')
        elif r2 == 'struct':
            out.append(f'@fragment fn {NAMES["extra"]}() -> FOut {{ var o: FOut; return o; }}')
        else:
            out.append(f'@fragment fn {NAMES["extra"]}() {{}}')
    else:
        out.append(f'@compute @workgroup_size(1) fn {NAMES["extra"]}() {{}}')
    return '\n'.join(out) + '\n'


class H:
    pass


def build(ctx):
    S, c = ctx.S, ctx.S.conv
    src = render()
    d = S.dump(src)
    module = c.module(d)
    mj = d['module']
    eps = c.get(module, 'entry_points').items
    idx = {e['name']: i for i, e in enumerate(mj['entry_points'])}
    h = H()
    h.src = src
    # the module has one override whose default is present or not (symbolic): entry metadata must not depend on it
    h.ov_default = z3.Bool('override_has_default')
    ov = c.get(module, 'overrides').fields[0].items[0]
    c.set(ov, 'init', Agg('Option', {'Some': [0], 'None': []}, disc=z3.If(h.ov_default, z3.BitVecVal(1, 64), z3.BitVecVal(0, 64))))
    # workgroup size
    h.wg = [z3.BitVec(f'wg{i}', 32) for i in range(3)]
    c.set(eps[idx[NAMES['cs']]], 'workgroup_size', list(h.wg))
    # extra entry stage
    h.extra_stage = z3.BitVec('extra_stage', 64)
    c.set(eps[idx[NAMES['extra']]], 'stage', Agg('ShaderStage', [], disc=h.extra_stage))
    # fragment result
    fs = c.get(eps[idx[NAMES['fs']]], 'function')
    B = {v['name']: v['disc'] for v in S.schema['enums']['Binding']}
    h.B = B
    h.has_res = z3.Bool('has_result')
    h.res_bound = z3.Bool('result_has_binding')
    h.res_kind = z3.BitVec('result_binding_kind', 64)
    h.res_loc = z3.BitVec('result_location', 32)
    fout = next(i for i, t in enumerate(mj['types']) if t['name'] == 'FOut')

    def binding(kind, loc, sbs=False):
        return c.sym_enum('Binding', kind, {'BuiltIn': [Opaque('builtin')], 'Location': [loc, sbs, none(), none()]})
    rb = Agg('Option', {'Some': [binding(h.res_kind, h.res_loc)], 'None': []},
             disc=z3.If(h.res_bound, z3.BitVecVal(1, 64), z3.BitVecVal(0, 64)))
    hvec4 = next(i for i, t in enumerate(mj['types']) if t['inner'].get('Vector') == {'size': 'Quad', 'scalar': {'kind': 'Float', 'width': 4}})
    hf32 = next(i for i, t in enumerate(mj['types']) if t['inner'].get('Scalar') == {'kind': 'Float', 'width': 4})
    bv32 = lambda v_: z3.BitVecVal(v_, 32)
    # the result TYPE goes with the shape: struct -> FOut, @location -> vec4<f32>, builtin frag_depth -> f32 (as rendered)
    res_ty = lambda bound, kind: z3.If(bound, z3.If(kind == B['Location'], bv32(hvec4), bv32(hf32)), bv32(fout))
    fr = Agg('FunctionResult', [res_ty(h.res_bound, h.res_kind), rb])
    c.set(fs, 'result', Agg('Option', {'Some': [fr], 'None': []}, disc=z3.If(h.has_res, z3.BitVecVal(1, 64), z3.BitVecVal(0, 64))))
    # the extra entry (a second fragment entry when its stage says so) has a result of its own: same type handle, own binding
    h.has_res2, h.res_bound2 = z3.Bool('extra_has_result'), z3.Bool('extra_result_has_binding')
    h.res_kind2, h.res_loc2 = z3.BitVec('extra_result_binding_kind', 64), z3.BitVec('extra_result_location', 32)
    rb2 = Agg('Option', {'Some': [binding(h.res_kind2, h.res_loc2)], 'None': []}, disc=z3.If(h.res_bound2, z3.BitVecVal(1, 64), z3.BitVecVal(0, 64)))
    c.set(c.get(eps[idx[NAMES['extra']]], 'function'), 'result',
          Agg('Option', {'Some': [Agg('FunctionResult', [res_ty(h.res_bound2, h.res_kind2), rb2])], 'None': []}, disc=z3.If(h.has_res2, z3.BitVecVal(1, 64), z3.BitVecVal(0, 64))))
    # members of FOut
    types = c.get(module, 'types').fields[0].items
    members = c.get(types[fout], 'inner').fields[0].items
    h.mk, h.ml, h.msbs = [], [], []
    for i, mb in enumerate(members):
        k = z3.BitVec(f'member{i}_binding_kind', 64)
        l = z3.BitVec(f'member{i}_location', 32)
        # dual-source blending: the attribute selects the blend SOURCE of a location, it does not add a location (the pinned
        # code never looks at it, so it is symbolic)
        sb = z3.Bool(f'member{i}_second_blend_source')
        h.msbs.append(sb)
        c.set(mb, 'binding', some(binding(k, l, sb)))
        h.mk.append(k)
        h.ml.append(l)
    h.assume = [z3.ULT(h.extra_stage, 3), z3.ULT(h.res_kind, 2), z3.ULT(h.res_kind2, 2)] + [z3.ULT(k, 2) for k in h.mk]
    # only a fragment entry's result is rendered from the holes (a vertex entry returns the position, a compute entry nothing)
    h.assume.append(z3.Implies(h.extra_stage != 1, z3.Not(h.has_res2)))
    # WGSL: the @location numbers of one struct are distinct
    for i in range(len(h.mk)):
        for j in range(i):
            h.assume.append(z3.Implies(z3.And(h.mk[i] == B['Location'], h.mk[j] == B['Location']), h.ml[i] != h.ml[j]))
    return module, h


def expected_targets(h):
    """1 + highest @location written, 0 if none: as many targets as are needed to address every location"""
    one = z3.BitVecVal(1, 64)
    zero = z3.BitVecVal(0, 64)
    smax = zero
    for k, l in zip(h.mk, h.ml):
        need = z3.If(k == h.B['Location'], z3.ZeroExt(32, l) + one, zero)
        smax = z3.If(z3.UGT(need, smax), need, smax)
    direct = z3.If(h.res_kind == h.B['Location'], z3.ZeroExt(32, h.res_loc) + one, zero)
    direct2 = z3.If(h.res_kind2 == h.B['Location'], z3.ZeroExt(32, h.res_loc2) + one, zero)
    h.want_t2 = z3.If(h.has_res2, z3.If(h.res_bound2, direct2, smax), zero)
    return z3.If(h.has_res, z3.If(h.res_bound, direct, smax), zero)


def vals_of(h, m):
    g = lambda t: model_value(m, t)
    res = 'none' if not g(h.has_res) else ('struct' if not g(h.res_bound) else ('loc' if g(h.res_kind) == h.B['Location'] else 'builtin'))
    res2 = 'none' if not g(h.has_res2) else ('struct' if not g(h.res_bound2) else ('loc' if g(h.res_kind2) == h.B['Location'] else 'builtin'))
    return {'wg': tuple(g(w) for w in h.wg), 'res': res, 'loc': g(h.res_loc), 'res2': res2, 'loc2': g(h.res_loc2), 'ov_default': g(h.ov_default),
            'members': [('loc' if g(k) == h.B['Location'] else 'builtin', g(l)) for k, l in zip(h.mk, h.ml)],
            'second_blend_source': [bool(g(b)) for b in h.msbs],
            'extra_stage': g(h.extra_stage)}


def expected_concrete(v):
    def targets(res, loc):
        if res == 'none' or res == 'builtin':
            return 0
        if res == 'loc':
            return loc + 1
        return max([l + 1 for k, l in v['members'] if k == 'loc'] or [0])
    return {'targets': targets(v['res'], v['loc']), 'wg': list(v['wg']), 'extra_stage': v['extra_stage'],
            'extra_targets': targets(v.get('res2', 'none'), v.get('loc2', 0)) if v['extra_stage'] == 1 else None}


def facts(d, names=NAMES):
    """the facts of the decoded module the property talks about (values may be z3 terms)"""
    up = {k: n.upper() for k, n in names.items()}
    f = {}
    f['entry_consts'] = d['entry_consts']
    fr = d['fragment'].get(names['fs'] + '_entry')
    f['fs'] = fr
    f['vs'] = d['vertex'].get(names['vs'] + '_entry')
    cm = d['compute']
    f['wg'] = {x['const']: x['size'] for x in cm if 'const' in x}
    f['pipes'] = {x['fn']: x for x in cm if 'fn' in x}
    f['extra_f'] = d['fragment'].get(names['extra'] + '_entry')
    f['extra_v'] = d['vertex'].get(names['extra'] + '_entry')
    f['vertex_state'], f['fragment_state'] = d.get('vertex_state'), d.get('fragment_state')
    return f


def static_conditions(f, extra_stage_concrete, names=NAMES):
    """the parts of the property that do not depend on symbolic values, as (name, bool)"""
    up = {k: n.upper() for k, n in names.items()}
    cs = []
    want_consts = {f'ENTRY_{up[k]}': names[k] for k in names}
    cs.append(('entry constants export the exact names', f['entry_consts'] == want_consts))
    fs = f['fs']
    cs.append(('fragment helper exists', fs is not None))
    if fs:
        cs.append(('fragment helper names its own entry', fs['fields'].get('entry_point') == f'ENTRY_{up["fs"]}'))
        cs.append(('fragment helper forwards targets', fs['fields'].get('targets') == 'targets'))
        cs.append(('fragment helper takes the module\'s overrides', fs['fields'].get('constants') == 'overrides . constants ()' and fs['overrides_param']))
    vs = f['vs']
    cs.append(('vertex helper exists', vs is not None))
    if vs:
        cs.append(('vertex helper: one buffer per struct parameter, in order',
                   vs['n_ret'] == 3 and vs['buffers'] == ['VIn :: vertex_buffer_layout (v_in)', 'VBuiltins :: vertex_buffer_layout (v_builtins)',
                                                          'VInst :: vertex_buffer_layout (v_inst)']
                   and vs['params'] == [('v_in', 'wgpu :: VertexStepMode'), ('v_builtins', 'wgpu :: VertexStepMode'), ('v_inst', 'wgpu :: VertexStepMode'),
                                        ('overrides', '& OverrideConstants')]))
        cs.append(('vertex helper names its own entry', vs['fields'].get('entry_point') == f'ENTRY_{up["vs"]}'))
    p = f['pipes'].get(f'create_{names["cs"]}_pipeline')
    cs.append(('compute pipeline constructor exists', p is not None))
    if p:
        cs.append(('compute pipeline targets its entry with the module\'s own shader and layout',
                   p['desc'].get('entry_point') == f"Some ({names['cs']!r})" and p['desc'].get('module') == '& module'
                   and p['desc'].get('layout') == 'Some (& layout)' and 'let module = super :: create_shader_module (device) ;' in p['body']
                   and 'let layout = super :: create_pipeline_layout (device) ;' in p['body'] and p['ret'] == 'wgpu :: ComputePipeline'))
    cs.append(('workgroup size constant exists', f'{up["cs"]}_WORKGROUP_SIZE' in f['wg']))
    vst, fst = f['vertex_state'], f['fragment_state']
    cs.append(('vertex_state forwards module, name, buffers, constants',
               vst is not None and vst['fields'] == {'module': 'module', 'entry_point': 'Some (entry . entry_point)', 'buffers': '& entry . buffers',
                                                     'compilation_options': 'wgpu :: PipelineCompilationOptions {constants : & entry . constants , .. Default :: default ()}'}))
    cs.append(('fragment_state forwards module, name, targets, constants',
               fst is not None and fst['fields'] == {'module': 'module', 'entry_point': 'Some (entry . entry_point)', 'targets': '& entry . targets',
                                                     'compilation_options': 'wgpu :: PipelineCompilationOptions {constants : & entry . constants , .. Default :: default ()}'}))
    e = extra_stage_concrete
    if e is not None:
        cs.append(('extra entry gets the helper of its stage only',
                   (f['extra_v'] is not None) == (e == 0) and (f['extra_f'] is not None) == (e == 1)
                   and ((f'create_{names["extra"]}_pipeline' in f['pipes']) == (e == 2))
                   and ((f'{up["extra"]}_WORKGROUP_SIZE' in f['wg']) == (e == 2))))
        if e == 0 and f['extra_v']:
            cs.append(('vertex helper without struct parameters has no buffers', f['extra_v']['n_ret'] == 0 and f['extra_v']['buffers'] == []))
        if e == 1 and f['extra_f']:
            cs.append(('second fragment helper names its own entry', f['extra_f']['fields'].get('entry_point') == f'ENTRY_{up["extra"]}'))
    return cs


def run(ctx):
    module, h = build(ctx)
    src = h.src
    ctx.bounds = {'entries': '4 (vertex with 3 struct parameters, one of them made of builtins only; fragment; compute; one of symbolic stage)',
                  'fragment result': f'none / @location(l) / builtin / struct of {NMEMBERS} members each builtin or @location(l_i); l over all u32; the extra entry, when a fragment entry, has its own symbolic result of the same type',
                  'workgroup size': '3 x all of u32', 'overrides': 'one override, default present or absent (symbolic)', 'names': list(NAMES.values())}
    ctx.assumptions += ['"as many colour targets as are needed to address every @location" = 1 + the highest location written (0 if none)',
                        'entry names are concrete (mixed case, non-ASCII, digits): string case mapping is not symbolic',
                        'workgroup sizes given by constants / overrides are folded by the naga front end before the generator sees them']
    env = env_passthrough(module, src)
    res = ctx.explore('create_shader_module_inner/entry-metadata',
                      lambda it: it.call('create_shader_module_inner', [src, none(), write_options(ctx.S.conv)]),
                      assume=h.assume, env=env,
                      anchors=['entry_point_constants', 'compute_module', 'create_compute_pipeline', 'workgroup_size', 'fragment_target_count',
                               'fragment_states', 'vertex_states'])
    want_t = expected_targets(h)
    seen = {}
    up = {k: n.upper() for k, n in NAMES.items()}
    for pc, kind, out, _ in res:
        if kind == 'panic' or out.disc != 0:
            m = ctx.witness(pc)
            v = vals_of(h, m)
            k2, r2, _ = ctx.gen_tokens(render(v), {})
            ctx.report('C14/not-ok', f'generation fails ({kind}: {out}) for {v}', {'wgsl': render(v)}, k2 != 'ok', str(r2)[:200])
            continue
        try:
            f = facts(decode_entry_items(out.fields[0].toks))
        except T.DecodeError as e:
            m = ctx.witness(pc)
            v = vals_of(h, m)
            try:
                k2, t2, _ = ctx.gen_tokens(render(v), {})
                facts(decode_entry_items(t2))
                rep = False
            except T.DecodeError:
                rep = True
            ctx.report('C14/malformed', f'entry point section does not decode: {e}', {'wgsl': render(v)}, rep)
            continue
        m0 = ctx.witness(pc)
        es = model_value(m0, h.extra_stage)          # the stage is fixed on each path (naga_stages / filters fork on it)
        conds = [(n, z3.BoolVal(bool(b))) for n, b in static_conditions(f, None)]
        # stage-dependent part: the path must agree with the stage the pc allows
        for e in range(3):
            sc = [b for n, b in static_conditions(f, e) if n.startswith(('extra', 'vertex helper without', 'second fragment helper'))]
            conds.append((f'extra entry helpers (stage {e})', z3.Implies(h.extra_stage == e, z3.BoolVal(all(sc)))))
        if f['fs']:
            for nm in ('n_param', 'n_ret'):
                v_ = f['fs'][nm]
                conds.append(('fragment target count', (v_ == want_t) if is_sym(v_) else (want_t == z3.BitVecVal(v_, 64))))
        if f['extra_f']:
            for nm in ('n_param', 'n_ret'):
                v_ = f['extra_f'][nm]
                conds.append(('fragment target count of the second fragment entry',
                              z3.Implies(h.extra_stage == 1, (v_ == h.want_t2) if is_sym(v_) else (h.want_t2 == z3.BitVecVal(v_, 64)))))
        wgs = f['wg'].get(f'{up["cs"]}_WORKGROUP_SIZE')
        if wgs:
            for got, w in zip(wgs, h.wg):
                conds.append(('workgroup size value', (got == z3.ZeroExt(32, w)) if is_sym(got) else (z3.ZeroExt(32, w) == z3.BitVecVal(got, 64))))
            conds.append(('workgroup size has 3 dimensions', z3.BoolVal(len(wgs) == 3)))
        m = ctx.check(pc, z3.Or([z3.Not(c_) for _, c_ in conds]))
        if m is None:
            continue
        failed = [n for n, c_ in conds if not z3.is_true(m.eval(c_, model_completion=True))]
        v = vals_of(h, m)
        for name in failed[:1]:
            key = f'C14/{name}'
            seen[key] = seen.get(key, 0) + 1
            if seen[key] > 1:
                continue
            rep, det = replay(ctx, v, name)
            ctx.report(key, f'"{name}" fails for fragment result {v["res"]} {v["members"] if v["res"] == "struct" else v["loc"]}, '
                            f'workgroup size {v["wg"]}: {det.get("real")}', det, rep, det)
    oks = [r for r in res if r[1] == 'ok']
    ctx.vacuity_witness('entry metadata assertion reachable', oks[0][0])
    # translator validation: default rendering + a few witnesses, token-exact
    ctx.differential(src, {})
    for r in (oks[:: max(1, len(oks) // (3 if ctx.tier == 'quick' else 12))]):
        v = vals_of(h, ctx.witness(r[0]))
        ctx.differential(render(v), {})
        ctx.sample({'witness': v})
    ctx.extra['violations_by_rule'] = seen


def replay(ctx, v, name):
    src = render(v)
    kind, toks, _ = ctx.gen_tokens(src, {})
    det = {'wgsl': src, 'expected': expected_concrete(v)}
    if kind != 'ok':
        det['real'] = f'{kind}: {toks}'
        return True, det
    try:
        f = facts(decode_entry_items(toks))
    except T.DecodeError as e:
        det['real'] = f'does not decode: {e}'
        return True, det
    exp = expected_concrete(v)
    bad = [n for n, b in static_conditions(f, v['extra_stage']) if not b]
    up = NAMES['cs'].upper()
    real = {'targets': (f['fs'] or {}).get('n_param'), 'targets_ret': (f['fs'] or {}).get('n_ret'), 'wg': f['wg'].get(f'{up}_WORKGROUP_SIZE')}
    det['real'] = real
    if real['targets'] != exp['targets'] or real['targets_ret'] != exp['targets']:
        bad.append('fragment target count')
    if exp['extra_targets'] is not None:
        real['extra_targets'] = (f['extra_f'] or {}).get('n_param')
        if real['extra_targets'] != exp['extra_targets'] or (f['extra_f'] or {}).get('n_ret') != exp['extra_targets']:
            bad.append('fragment target count of the second fragment entry')
    if real['wg'] != exp['wg']:
        bad.append('workgroup size value')
    det['failed'] = bad
    return bool(bad), det


def native(ctx):
    n = 30 if ctx.tier == 'quick' else 300
    done = False
    for i in range(n):
        locs = ctx.rng.sample([0, 1, 2, 3, 5, 7], NMEMBERS)
        v = {'wg': tuple(ctx.rng.choice([1, 2, 64, 65535, 2 ** 32 - 1]) for _ in range(3)),
             'res': ctx.rng.choice(['none', 'loc', 'builtin', 'struct']), 'loc': ctx.rng.choice([0, 1, 3, 7]),
             'members': [(ctx.rng.choice(['loc', 'loc', 'builtin']), l) for l in locs], 'extra_stage': ctx.rng.randrange(3),
             'second_blend_source': [ctx.rng.random() < 0.25 for _ in locs],
             'res2': ctx.rng.choice(['none', 'loc', 'loc', 'struct']), 'loc2': ctx.rng.choice([0, 2, 5]), 'ov_default': ctx.rng.random() < 0.5}
        if v['res'] == 'builtin' and v['res2'] == 'builtin':
            v['res2'] = 'loc'
        if sum(1 for k_, _ in v['members'] if k_ == 'builtin') > 2:
            continue
        rep, det = replay(ctx, v, '')
        if rep and not done:
            done = True
            ctx.report('C14/native', f'{v}: {det.get("failed") or det.get("real")}', det, True, det)
        elif not rep:
            ctx.replayed_ok += 1

if __name__ == '__main__':
    sys.exit(main('C14', run, native))
