"""C13  Push constant range covers the variable, from offset 0, once.

Real code executed symbolically: push_constant_range_stages (symbolic position among the globals and fully symbolic type
of the push-constant variable) and create_shader_module_inner (symbolic address space of three globals).
"""
import z3
from harness.common import *
from mirsym.schema import mkflags


def decode_layout(toks):
    """-> (ranges: list of {stages: text, start, end}, push_constant_stages expr value or None, bind_group_layouts texts)"""
    its = T.items(toks)
    f = T.find_items(its, 'fn', 'create_pipeline_layout')
    if len(f) != 1:
        raise T.DecodeError('create_pipeline_layout missing')
    gen, params, ret, body = T.fn_parts(f[0])
    desc = None

    def walk(ts):
        nonlocal desc
        for i, t in enumerate(ts):
            if T.is_i(t, 'PipelineLayoutDescriptor') and i + 1 < len(ts) and T.is_g(ts[i + 1], '{}'):
                desc = dict((n, v) for n, _, v in T.struct_fields(ts[i + 1].v[1]))
            elif t.k == 'group':
                walk(t.v[1])
    walk(body)
    if desc is None or set(desc) != {'label', 'bind_group_layouts', 'push_constant_ranges'}:
        raise T.DecodeError('PipelineLayoutDescriptor: ' + T.text(body))
    arr = desc['push_constant_ranges']
    if not (T.is_p(arr[0], '&') and T.is_g(arr[1], '[]') and len(arr) == 2):
        raise T.DecodeError('push_constant_ranges: ' + T.text(arr))
    ranges = []
    for r in T.split_commas(arr[1].v[1]):
        from harness.decoders import struct_lit
        fl = struct_lit(r, 'wgpu', 'PushConstantRange')
        rg = fl['range']
        if not (len(rg) == 3 and rg[0].k == 'lit' and T.is_p(rg[1], '..') and rg[2].k == 'lit'):
            raise T.DecodeError('range: ' + T.text(rg))
        from harness.decoders import lit_of
        ranges.append({'stages': T.text(fl['stages']), 'start': lit_of(rg[0]), 'end': lit_of(rg[2])})
    pcs = T.find_items(its, 'const', 'PUSH_CONSTANT_STAGES')
    stages = None
    if pcs:
        ty, val = T.const_parts(pcs[0])
        if T.text(ty) != 'wgpu :: ShaderStages' or not pcs[0].vis:
            raise T.DecodeError('PUSH_CONSTANT_STAGES type')
        stages = T.eval_stages(val)
    bgl = desc['bind_group_layouts']
    layouts = [T.text(x) for x in T.split_commas(bgl[1].v[1])] if len(bgl) == 2 and T.is_g(bgl[1], '[]') else None
    return ranges, stages, layouts, len(pcs)


TYPE_SPELL = {  # WGSL spelling of witnesses, for the native cross-check of the size model
}


def wgsl_type(v):
    k = v['kind']
    sc = {('Float', 4): 'f32', ('Sint', 4): 'i32', ('Uint', 4): 'u32', ('Float', 8): 'f64'}.get((v.get('scalar'), v.get('width')))
    if k == 'Scalar':
        return sc
    if k == 'Vector':
        return f'vec{v["size"]}<{sc}>' if sc else None
    if k == 'Matrix':
        return f'mat{v["cols"]}x{v["rows"]}<{sc}>' if sc in ('f32',) else None
    if k == 'Array':
        return f'array<vec4<f32>, {v["count"]}>' if v['stride'] == 16 and 0 < v['count'] < 16 else None
    return None


def run(ctx):
    S, c = ctx.S, ctx.S.conv
    E = S.schema['enums']
    TI = {v['name']: v['disc'] for v in E['TypeInner']}
    AS = {v['name']: v['disc'] for v in E['AddressSpace']}
    SK = {v['name']: v['disc'] for v in E['ScalarKind']}
    src = ('struct P { a: vec4<f32>, b: f32 }\nvar<private> g0: vec4<f32>;\nvar<push_constant> g1: P;\n'
           '@group(0) @binding(0) var<uniform> g2: vec4<f32>;\n@fragment fn f() { let x = g1.b; }\n@compute @workgroup_size(1) fn cmain() {}\n')
    ctx.assumptions += ['WGSL SizeOf table: scalar = width; vecN = N*width; matCxR = C * roundUp(AlignOf(vecR), R*width) with AlignOf(vec3) = 4*width; '
                        'array = count * stride; struct = span.  Stride and span are computed by naga\'s front end (trusted)',
                        'array count * stride does not overflow u32 (push constants are at most a few hundred bytes)',
                        'naga TypeInner::size is a transcription (models.py type_size) of naga-24.0.0 src/proc/mod.rs; cross-checked against the real '
                        'function on every concrete type met and on rendered witnesses',
                        'at most one push-constant variable per module (WGSL)']
    ctx.bounds = {'globals': 3, 'push constant type': 'scalar (kind, width) / vector (size, kind, width) / matrix (cols, rows, width) / array (count u32 x stride u32) / struct (span u32)'}
    # ------------------------------------------------------------------ (1) symbolic type + position
    d = S.dump(src)
    module = c.module(d)
    gvs = c.get(module, 'global_variables').fields[0].items
    types = c.get(module, 'types').fields[0].items
    pty = c.get(gvs[1], 'ty')
    tdisc = z3.BitVec('pc_type', 64)
    kind, width = z3.BitVec('scalar_kind', 64), z3.BitVec('scalar_width', 8)
    vsize, cols, rows = z3.BitVec('vector_size', 64), z3.BitVec('columns', 64), z3.BitVec('rows', 64)
    count, stride, span = z3.BitVec('array_count', 32), z3.BitVec('array_stride', 32), z3.BitVec('struct_span', 32)

    def scalar():
        return Agg('Scalar', [Agg('ScalarKind', [], disc=kind), width])
    inner = c.sym_enum('TypeInner', tdisc, {
        'Scalar': [scalar()], 'Vector': [Agg('VectorSize', [], disc=vsize), scalar()],
        'Matrix': [Agg('VectorSize', [], disc=cols), Agg('VectorSize', [], disc=rows), scalar()],
        'Array': [0, c.enum('ArraySize', 'Constant', [count]), stride], 'Struct': [VecV(), span]})
    c.set(types[pty], 'inner', inner)
    module.sym_types = {pty}
    pos = z3.BitVec('pc_position', 8)
    for i, g in enumerate(gvs):
        # exactly the global at `pos` is in the push-constant space; the others are private
        c.set(g, 'space', c.sym_enum('AddressSpace', z3.If(pos == i, z3.BitVecVal(AS['PushConstant'], 64), z3.BitVecVal(AS['Private'], 64)),
                                     {'Storage': [mkflags('StorageAccess', 1)]}))
        if i != 1:
            c.set(g, 'ty', pty)
    vs = lambda t: z3.Or(t == 2, t == 3, t == 4)
    assume = [z3.Or([tdisc == TI[k] for k in ('Scalar', 'Vector', 'Matrix', 'Array', 'Struct')]),
              z3.Or(kind == SK['Float'], kind == SK['Sint'], kind == SK['Uint']), z3.Or(width == 4, width == 8),
              vs(vsize), vs(cols), vs(rows), z3.ULT(pos, 4),
              z3.ULE(count, 1 << 15), z3.UGE(count, 1), z3.ULE(stride, 1 << 16), stride % 4 == 0, span % 4 == 0]
    bits = z3.BitVec('pc_stage_bits', 32)

    def go(it):
        stages = BTreeV()
        stages.entries.append(['g1', mkflags('wgpu::ShaderStages', bits)])
        return it.call('push_constant_range_stages', [mkref(module), mkref(stages), mkflags('wgpu::ShaderStages', 6)])
    res = ctx.explore('push_constant_range_stages/any-type-any-position', go, assume=assume + [bits == 2],
                      anchors=['push_constant_range_stages'])
    w32 = z3.ZeroExt(24, width)
    x32 = lambda t: z3.Extract(31, 0, t)
    al = lambda r: z3.If(r == 2, z3.BitVecVal(2, 32), z3.BitVecVal(4, 32))
    want = z3.If(tdisc == TI['Scalar'], w32,
                 z3.If(tdisc == TI['Vector'], x32(vsize) * w32,
                       z3.If(tdisc == TI['Matrix'], x32(cols) * al(rows) * w32,
                             z3.If(tdisc == TI['Array'], count * stride, span))))
    seen = {}
    for pc, kind_, out, _ in res:
        if kind_ == 'panic':
            m = ctx.witness(pc)
            ctx.report('C13/panic', f'push_constant_range_stages panics: {out}', {'model': str(m)[:300]}, False)
            continue
        exists = z3.ULT(pos, 3)
        if out.disc == 0:
            m = ctx.check(pc, exists)
            if m is not None:
                seen['C13/missing'] = seen.get('C13/missing', 0) + 1
                p = model_value(m, pos)
                rep, det = replay_position(ctx, p)
                ctx.report('C13/missing-range', f'no push constant range although global {p} is a push constant', det, rep, det)
            continue
        rng, st = out.fields[0].fields
        try:
            from harness.decoders import struct_lit, lit_of
            fl = struct_lit(rng.toks, 'wgpu', 'PushConstantRange')
            rg = fl['range']
            start, end = lit_of(rg[0]), lit_of(rg[2])
            okshape = T.text(fl['stages']) == 'PUSH_CONSTANT_STAGES' and T.is_p(rg[1], '..') and len(rg) == 3
        except (T.DecodeError, IndexError, KeyError) as e:
            okshape, start, end = False, 0, 0
        conds = [exists, z3.BoolVal(okshape),
                 (start == 0) if not is_sym(start) else (start == z3.BitVecVal(0, 64)),
                 (z3.ZeroExt(32, want) == end) if is_sym(end) else (z3.ZeroExt(32, want) == z3.BitVecVal(end, 64)),
                 want % 4 == 0,
                 z3.If(pos == 1, z3.BitVecVal(2, 32), z3.BitVecVal(6, 32)) == T.eval_stages(st.toks)]
        m = ctx.check(pc, z3.Not(z3.And(conds)))
        if m is not None:
            v = describe(m, TI, SK, tdisc, kind, width, vsize, cols, rows, count, stride, span)
            key = f'C13/size/{v["kind"]}'
            seen[key] = seen.get(key, 0) + 1
            if seen[key] > 1:
                continue
            rep, det = replay_type(ctx, v, model_value(m, want))
            ctx.report(key, f'push constant of type {v}: emitted range {start}..{end if not is_sym(end) else model_value(m, end)}, '
                            f'WGSL size {model_value(m, want)}', det, rep, det)
    oks = [r for r in res if r[1] == 'ok' and r[2].disc == 1]
    ctx.vacuity_witness('range assertion reachable', oks[0][0])
    # cross-check of the TypeInner::size transcription on rendered witnesses (real naga via oracle dump)
    n = 0
    for r in oks[:: max(1, len(oks) // (12 if ctx.tier == 'quick' else 60))]:
        m = ctx.witness(r[0])
        v = describe(m, TI, SK, tdisc, kind, width, vsize, cols, rows, count, stride, span)
        t = wgsl_type(v)
        if t is None:
            continue
        s2 = f'var<push_constant> pc: {t};\n@fragment fn f() {{}}\n'
        d2 = S.oracle.dump(s2)
        if 'module' not in d2:
            continue
        gi = d2['module']['global_variables'][0]['ty']
        real = d2['sizes'][gi]
        mine = model_value(m, want)
        if real != mine:
            raise Inconclusive(f'size model disagrees with real naga TypeInner::size on {t}: {mine} != {real}')
        kind2, toks2, _ = ctx.gen_tokens(s2, {})
        if kind2 == 'ok':
            rr, _, _, _ = decode_layout(toks2)
            if [x['end'] for x in rr] != [real]:
                raise Inconclusive(f'translator disagrees with the implementation on {t}: {rr} vs {real}')
        ctx.replayed_ok += 1
        n += 1
        ctx.sample({'type': t, 'size': real})
    # ------------------------------------------------------------------ (2) end to end: iff, exactly one, identifier, no constant otherwise
    module2 = S.module(src)
    gv2 = c.get(module2, 'global_variables').fields[0].items
    has = z3.Bool('module_has_push_constant')
    c.set(gv2[1], 'space', c.sym_enum('AddressSpace', z3.If(has, z3.BitVecVal(AS['PushConstant'], 64), z3.BitVecVal(AS['Private'], 64)),
                                      {'Storage': [mkflags('StorageAccess', 1)]}))
    env = env_passthrough(module2, src)
    res2 = ctx.explore('create_shader_module_inner/with-and-without', lambda it: it.call('create_shader_module_inner', [src, none(), write_options(S.conv)]),
                       env=env, anchors=['push_constant_range_stages', 'create_shader_module_inner'])
    real_size = d['sizes'][pty]
    for pc, kind_, out, _ in res2:
        if kind_ == 'panic' or out.disc != 0:
            raise Inconclusive(f'end-to-end run failed: {kind_} {out}')
        ranges, stages, layouts, n_const = decode_layout(out.fields[0].toks)
        m = ctx.witness(pc)
        hv = model_value(m, has)
        good = (ranges == [{'stages': 'PUSH_CONSTANT_STAGES', 'start': 0, 'end': real_size}] and stages == 2 and n_const == 1) if hv else \
               (ranges == [] and stages is None and n_const == 0)
        good = good and layouts == ['& bind_groups :: BindGroup0 :: get_bind_group_layout (device)']
        ctx.queries['discharged'] += 1
        if good:
            ctx.queries['unsat'] += 1
        else:
            ctx.queries['sat'] += 1
            s3 = src if hv else src.replace('var<push_constant> g1', 'var<private> g1')
            k3, t3, _ = ctx.gen_tokens(s3, {})
            rr = decode_layout(t3) if k3 == 'ok' else (k3, t3)
            ctx.report('C13/end-to-end', f'module {"with" if hv else "without"} push constant: ranges {ranges}, PUSH_CONSTANT_STAGES {stages} (x{n_const})',
                       {'wgsl': s3}, rr[:2] == (ranges, stages) if k3 == 'ok' else True, str(rr)[:300])
    ctx.differential(src, {})
    ctx.differential(src.replace('var<push_constant> g1', 'var<private> g1'), {})
    # "same stage set as the stages using the variable": the stage analysis on call sequences shared between entry points, with the
    # push constant used by the low helper (all nesting contexts are C03's)
    from harness import c03 as C03
    C03.sequences(ctx, 2, 2, seen, low_use='pc')
    # a call in every nesting context (if / switch / loop body / continuing / block / for ...) whose callee chain may reach the push constant
    C03.contexts(ctx, 2, 2, seen, [(cx, None) for cx in C03.CONTEXTS], full=False)
    # through the whole pipeline: PUSH_CONSTANT_STAGES for a push constant that is used, unused, or only mentioned in a helper nobody calls
    C03.end_to_end(ctx, seen)
    C03.wrappers(ctx, seen)
    C03.multi_use(ctx, seen)
    ctx.extra['violations_by_rule'] = seen


def describe(m, TI, SK, tdisc, kind, width, vsize, cols, rows, count, stride, span):
    g = lambda t: model_value(m, t)
    inv = {v: k for k, v in TI.items()}
    isk = {v: k for k, v in SK.items()}
    k = inv[g(tdisc)]
    v = {'kind': k}
    if k in ('Scalar', 'Vector', 'Matrix'):
        v.update(scalar=isk[g(kind)], width=g(width))
    if k == 'Vector':
        v['size'] = g(vsize)
    if k == 'Matrix':
        v.update(cols=g(cols), rows=g(rows))
    if k == 'Array':
        v.update(count=g(count), stride=g(stride))
    if k == 'Struct':
        v['span'] = g(span)
    return v


def replay_type(ctx, v, want):
    t = wgsl_type(v)
    if t is None:
        return False, {'note': f'no WGSL spelling for {v}'}
    s2 = f'var<push_constant> pc: {t};\n@fragment fn f() {{}}\n'
    kind2, toks2, _ = ctx.gen_tokens(s2, {})
    if kind2 != 'ok':
        return True, {'wgsl': s2, 'real': f'{kind2}: {toks2}'}
    rr, st, _, _ = decode_layout(toks2)
    return rr != [{'stages': 'PUSH_CONSTANT_STAGES', 'start': 0, 'end': want}], {'wgsl': s2, 'real': rr, 'expected_size': want}


def replay_position(ctx, p):
    decl = ['var<private> g0: vec4<f32>;', 'var<private> g1: vec4<f32>;', 'var<private> g2: vec4<f32>;']
    decl[p] = decl[p].replace('private', 'push_constant')
    s2 = '\n'.join(decl) + '\n@fragment fn f() {}\n'
    kind2, toks2, _ = ctx.gen_tokens(s2, {})
    if kind2 != 'ok':
        return True, {'wgsl': s2, 'real': f'{kind2}: {toks2}'}
    rr, st, _, _ = decode_layout(toks2)
    return len(rr) != 1, {'wgsl': s2, 'real': rr}


def native(ctx):
    done = False
    shapes = [('f32', 4), ('vec2<f32>', 8), ('vec3<f32>', 12), ('vec4<f32>', 16), ('vec3<u32>', 12), ('mat4x4<f32>', 64), ('mat3x3<f32>', 48), ('mat2x3<f32>', 32),
              ('array<vec4<f32>, 3>', 48), ('array<f32, 5>', 20)]
    structs = [('struct P { m: mat4x4<f32>, s: f32 }', 80), ('struct I { uv: vec2<f32>, w: f32 }\nstruct P { a: f32, inner: I }', 24),
               ('struct P { a: vec3<f32>, b: f32, c: vec3<f32> }', 32), ('struct P { a: f32 }', 4)]
    for t, want in shapes:
        s2 = f'var<push_constant> pc: {t};\n@fragment fn f() {{}}\n'
        kind2, toks2, _ = ctx.gen_tokens(s2, {})
        rr = decode_layout(toks2)[0] if kind2 == 'ok' else None
        if rr != [{'stages': 'PUSH_CONSTANT_STAGES', 'start': 0, 'end': want}]:
            if not done:
                done = True
                ctx.report('C13/native', f'push constant {t}: ranges {rr}, WGSL size {want}', {'wgsl': s2}, True)
        else:
            ctx.replayed_ok += 1
    for decl, want in structs:
        s2 = f'{decl}\nvar<push_constant> pc: P;\n@fragment fn f() {{}}\n'
        kind2, toks2, _ = ctx.gen_tokens(s2, {})
        rr = decode_layout(toks2)[0] if kind2 == 'ok' else None
        if rr != [{'stages': 'PUSH_CONSTANT_STAGES', 'start': 0, 'end': want}]:
            if not done:
                done = True
                ctx.report('C13/native', f'push constant struct: ranges {rr}, WGSL size {want}', {'wgsl': s2}, True)
        else:
            ctx.replayed_ok += 1
    for p in range(3):
        rep, det = replay_position(ctx, p)
        if rep and not done:
            done = True
            ctx.report('C13/native', f'push constant at position {p}: {det}', det, True, det)

if __name__ == '__main__':
    sys.exit(main('C13', run, native))
