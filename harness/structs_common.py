"""Shared pieces of the struct-related checks (C05, C06, C08, C09, C10): symbolic member types, the semantic decoder of
emitted Rust types, the decoder of emitted struct items, and WGSL rendering of witnesses."""
import re
import z3
from harness.common import *

SCALARS = {'i8': ('Sint', 1), 'u8': ('Uint', 1), 'i16': ('Sint', 2), 'u16': ('Uint', 2), 'i32': ('Sint', 4), 'u32': ('Uint', 4),
           'f32': ('Float', 4), 'f64': ('Float', 8), 'bool': ('Bool', 1), 'i64': ('Sint', 8), 'u64': ('Uint', 8)}
GLAM = {'Vec': ('Float', 4), 'DVec': ('Float', 8), 'UVec': ('Uint', 4), 'IVec': ('Sint', 4)}
WGSL_SCALAR = {('Sint', 4): 'i32', ('Uint', 4): 'u32', ('Float', 4): 'f32', ('Float', 8): 'f64', ('Bool', 1): 'bool'}


class UnknownType(Exception):
    pass


def decode_type(toks):
    """Rust type tokens -> semantic: {'kind','width','dims': [...], 'repr': how it is spelled} | {'struct': name} | {'rt': elem}
    dims are listed outer to inner; 'leaf' tells how many trailing dims belong to a vector/matrix type (order-insensitive)"""
    t = toks
    if len(t) == 1 and t[0].k == 'ident':
        n = t[0].v
        if isinstance(n, str) and n in SCALARS:
            k, w = SCALARS[n]
            return {'kind': k, 'width': w, 'dims': [], 'leaf': 0, 'repr': 'scalar', 'bool_any_width': n == 'bool'}
        return {'struct': n}
    if len(t) == 1 and T.is_g(t[0], '[]'):
        inner = t[0].v[1]
        semi = next((i for i, x in enumerate(inner) if T.is_p(x, ';')), None)
        if semi is None or len(inner) != semi + 2 or inner[semi + 1].k != 'lit':
            raise UnknownType(T.text(t))
        from harness.decoders import lit_of
        n = lit_of(inner[semi + 1])
        e = decode_type(inner[:semi])
        if 'struct' in e or 'rt' in e:
            return {'array': n, 'elem': e}
        if e.get('repr') not in ('scalar', 'array'):
            return {'array': n, 'elem': e}
        return dict(e, dims=[n] + e['dims'], repr='array')
    txt = T.text(t)
    m = re.match(r'^glam :: (D|U|I)?Vec([234])$', txt)
    if m:
        k, w = GLAM[(m.group(1) or '') + 'Vec']
        return {'kind': k, 'width': w, 'dims': [int(m.group(2))], 'leaf': 1, 'repr': 'glam'}
    m = re.match(r'^glam :: (D)?Mat([234])$', txt)
    if m:
        n = int(m.group(2))
        return {'kind': 'Float', 'width': 8 if m.group(1) else 4, 'dims': [n, n], 'leaf': 2, 'repr': 'glam'}
    if txt.startswith('nalgebra :: SVector <') and T.is_p(t[-1], '>'):
        args = T.split_commas(t[4:-1])
        e = decode_type(args[0])
        from harness.decoders import lit_of
        return {'kind': e['kind'], 'width': e['width'], 'dims': [lit_of(args[1][0])], 'leaf': 1, 'repr': 'nalgebra',
                'bool_any_width': e.get('bool_any_width', False)}
    if txt.startswith('nalgebra :: SMatrix <') and T.is_p(t[-1], '>'):
        args = T.split_commas(t[4:-1])
        e = decode_type(args[0])
        from harness.decoders import lit_of
        # SMatrix<T, R, C>
        return {'kind': e['kind'], 'width': e['width'], 'dims': [lit_of(args[2][0]), lit_of(args[1][0])], 'leaf': 2, 'repr': 'nalgebra',
                'nalgebra_rc': (lit_of(args[1][0]), lit_of(args[2][0]))}
    if T.is_i(t[0], 'Vec') and T.is_p(t[1], '<') and T.is_p(t[-1], '>'):
        return {'rt': decode_type(t[2:-1])}
    raise UnknownType(txt)


class TypeHole:
    """a struct member / element type that is symbolic over the WGSL leaf table (+ optionally an array of a base)"""

    def __init__(self, ctx, name, array_bases=(), allow_dynamic=False):
        E = ctx.S.schema['enums']
        self.name = name
        self.TI = {v['name']: v['disc'] for v in E['TypeInner']}
        self.SK = {v['name']: v['disc'] for v in E['ScalarKind']}
        self.tdisc = z3.BitVec(f'{name}_type', 64)
        self.kind = z3.BitVec(f'{name}_kind', 64)
        self.width = z3.BitVec(f'{name}_width', 8)
        self.vsize = z3.BitVec(f'{name}_size', 64)
        self.cols = z3.BitVec(f'{name}_cols', 64)
        self.rows = z3.BitVec(f'{name}_rows', 64)
        self.alen = z3.BitVec(f'{name}_len', 32)
        self.adyn = z3.Bool(f'{name}_runtime')
        self.base = z3.BitVec(f'{name}_base', 32)
        self.stride = z3.BitVec(f'{name}_stride', 32)      # computed by naga's front end; the generator has no business reading it
        self.bases = list(array_bases)           # [(handle, semantic-or-hole, wgsl spelling)]
        self.allow_dynamic = allow_dynamic
        # WGSL `alias X = <type>;` gives a non-struct type a NAME in naga's arena; symbolic once name_value() is installed
        self.aliased = z3.Bool(f'{name}_is_alias')
        self.alias_name = f'Alias{name}'
        self.alias_enabled = False

    def name_value(self):
        """value for naga::Type::name: None, or Some(alias name) when the member type is written through an alias"""
        self.alias_enabled = True
        return Agg('Option', {'Some': [self.alias_name], 'None': []}, disc=z3.If(self.aliased, z3.BitVecVal(1, 64), z3.BitVecVal(0, 64)))

    def alias_decl(self, m):
        if self.alias_enabled and model_value(m, self.aliased):
            raw = self.raw_wgsl(m)
            return f'alias {self.alias_name} = {raw};\n' if raw else None
        return ''

    def vars(self):
        return [self.tdisc, self.kind, self.width, self.vsize, self.cols, self.rows, self.alen, self.adyn, self.base, self.stride, self.aliased]

    def inner(self, ctx):
        c = ctx.S.conv
        sc = lambda: Agg('Scalar', [Agg('ScalarKind', [], disc=self.kind), self.width])
        size = c.sym_enum('ArraySize', z3.If(self.adyn, z3.BitVecVal(2, 64), z3.BitVecVal(0, 64)), {'Constant': [self.alen], 'Dynamic': []})
        return c.sym_enum('TypeInner', self.tdisc, {
            'Scalar': [sc()], 'Atomic': [sc()], 'Vector': [Agg('VectorSize', [], disc=self.vsize), sc()],
            'Matrix': [Agg('VectorSize', [], disc=self.cols), Agg('VectorSize', [], disc=self.rows), sc()],
            'Array': [self.base, size, self.stride]})

    def assumption(self, wgsl_expressible=True):
        TI, SK = self.TI, self.SK
        vs = lambda t: z3.Or(t == 2, t == 3, t == 4)
        kinds = ['Scalar', 'Atomic', 'Vector', 'Matrix'] + (['Array'] if self.bases else [])
        a = [z3.Or([self.tdisc == TI[k] for k in kinds]), vs(self.vsize), vs(self.cols), vs(self.rows), self.alen != 0,
             z3.UGE(self.stride, 4), z3.ULE(self.stride, 1 << 20), self.stride % 4 == 0]
        if self.bases:
            a.append(z3.Or([self.base == h for h, _, _ in self.bases]))
        if not self.allow_dynamic:
            a.append(z3.Not(self.adyn))
        if wgsl_expressible:
            pairs = [(SK['Sint'], 4), (SK['Uint'], 4), (SK['Float'], 4), (SK['Float'], 8), (SK['Bool'], 1)]
            a.append(z3.Or([z3.And(self.kind == k, self.width == w) for k, w in pairs]))
            a.append(z3.Implies(self.tdisc == TI['Matrix'], self.kind == SK['Float']))
            a.append(z3.Implies(self.tdisc == TI['Atomic'], z3.And(z3.Or(self.kind == SK['Sint'], self.kind == SK['Uint']), self.width == 4)))
        return a

    def matches(self, sem, fmt=None, base_match=None):
        """z3 condition: decoded semantic `sem` denotes the same scalar kind, width and element counts as this hole"""
        TI, SK = self.TI, self.SK
        B = z3.BoolVal
        if 'struct' in sem or 'rt' in sem:
            return B(False)

        def dimeq(term, d):
            if is_sym(d):
                return z3.ZeroExt(d.size() - term.size(), term) == d if d.size() > term.size() else term == d
            return term == d
        if 'array' in sem:       # array whose element is not a plain scalar/array spelling (glam/nalgebra/struct element)
            return z3.And(self.tdisc == TI['Array'], z3.Not(self.adyn), dimeq(self.alen, sem['array']),
                          base_match(self.base, sem['elem']) if base_match else B(False))
        kind_ok = self.kind == SK[sem['kind']]
        width_ok = self.width == sem['width'] if not sem.get('bool_any_width') else B(True)
        dims = sem['dims']
        conds = []
        conds.append(z3.Implies(z3.Or(self.tdisc == TI['Scalar'], self.tdisc == TI['Atomic']), z3.And(B(len(dims) == 0), kind_ok, width_ok)))
        conds.append(z3.Implies(self.tdisc == TI['Vector'], z3.And(B(len(dims) == 1), dimeq(self.vsize, dims[0]) if len(dims) == 1 else B(False), kind_ok, width_ok)))
        if len(dims) == 2:
            if 'nalgebra_rc' in sem:
                r, c_ = sem['nalgebra_rc']
                shape = z3.And(dimeq(self.rows, r), dimeq(self.cols, c_))
            else:
                shape = z3.Or(z3.And(dimeq(self.cols, dims[0]), dimeq(self.rows, dims[1])), z3.And(dimeq(self.cols, dims[1]), dimeq(self.rows, dims[0])))
        else:
            shape = B(False)
        conds.append(z3.Implies(self.tdisc == TI['Matrix'], z3.And(shape, self.kind == SK['Float'], B(sem['kind'] == 'Float'), width_ok)))
        if sem.get('repr') == 'array' and dims and base_match:
            rest = dict(sem, dims=dims[1:], repr='array' if len(dims) > 1 else 'scalar')
            conds.append(z3.Implies(self.tdisc == TI['Array'], z3.And(z3.Not(self.adyn), dimeq(self.alen, dims[0]), base_match(self.base, rest))))
        else:
            conds.append(z3.Implies(self.tdisc == TI['Array'], B(False)))
        return z3.And(conds)

    def repr_ok(self, sem, fmt):
        """the decoded spelling uses the SELECTED representation: glam / nalgebra types exactly where that library has the type
        (documented fallback: plain arrays elsewhere), plain arrays under Rust"""
        TI, SK = self.TI, self.SK
        B = z3.BoolVal
        r = sem.get('repr')
        if r is None:
            return B(True)
        is_vec, is_mat = self.tdisc == TI['Vector'], self.tdisc == TI['Matrix']
        glam_vec = z3.And(is_vec, z3.Or(z3.And(self.kind == SK['Float'], z3.Or(self.width == 4, self.width == 8)),
                                        z3.And(z3.Or(self.kind == SK['Uint'], self.kind == SK['Sint']), self.width == 4)))
        glam_mat = z3.And(is_mat, self.cols == self.rows)
        want_glam = z3.And(fmt == 1, z3.Or(glam_vec, glam_mat))
        want_nalg = z3.And(fmt == 2, z3.Or(is_vec, is_mat))
        leaf = z3.Or(is_vec, is_mat, self.tdisc == TI['Scalar'], self.tdisc == TI['Atomic'])
        return z3.Implies(leaf, z3.And(want_glam == B(r == 'glam'), want_nalg == B(r == 'nalgebra')))

    def describe(self, m):
        g = lambda t: model_value(m, t)
        inv = {v: k for k, v in self.TI.items()}
        isk = {v: k for k, v in self.SK.items()}
        k = inv.get(g(self.tdisc))
        d = {'type': k, 'scalar': isk.get(g(self.kind)), 'width': g(self.width)}
        if k == 'Vector':
            d['size'] = g(self.vsize)
        if k == 'Matrix':
            d.update(cols=g(self.cols), rows=g(self.rows))
        if k == 'Array':
            d.update(len=g(self.alen), runtime=g(self.adyn), base=g(self.base))
        return d

    def wgsl(self, m):
        if self.alias_enabled and model_value(m, self.aliased):
            return self.alias_name if self.raw_wgsl(m) else None
        return self.raw_wgsl(m)

    def raw_wgsl(self, m):
        d = self.describe(m)
        sc = WGSL_SCALAR.get((d['scalar'], d['width']))
        if sc is None:
            return None
        k = d['type']
        if k == 'Scalar':
            return sc
        if k == 'Atomic':
            return f'atomic<{sc}>' if sc in ('i32', 'u32') else None
        if k == 'Vector':
            return f'vec{d["size"]}<{sc}>'
        if k == 'Matrix':
            return f'mat{d["cols"]}x{d["rows"]}<{sc}>' if sc in ('f32', 'f64') else None
        if k == 'Array':
            b = next((x for x in self.bases if x[0] == d['base']), None)
            if b is None:
                return None
            spell = b[2](m) if callable(b[2]) else b[2]
            if spell is None:
                return None
            return f'array<{spell}>' if d['runtime'] else f'array<{spell}, {d["len"]}u>'
        return None


# ------------------------------------------------------------------------------------------------ struct items
def decode_structs(toks):
    """top-level `pub struct` items of the generated module (the generated helper structs are excluded) ->
    {name: {'derives','repr','fields':[(name, attrs, type tokens)], 'asserts': {...}, 'pub': bool}} plus order list"""
    its = T.items(toks)
    out, order = {}, []
    helper = {'OverrideConstants', 'VertexEntry', 'FragmentEntry'}
    for idx, it in enumerate(its):
        if it.kind != 'struct' or it.name in helper:
            continue
        derives, reprs, others = T.derive_list(it.attrs)
        fields = []
        for n, attrs, ty in T.struct_fields(T.body_of(it)):
            fields.append((n, [T.text(a.v[1]) for a in attrs], ty))
        if it.name in out:
            out[it.name]['duplicates'] = out[it.name].get('duplicates', 1) + 1
            continue
        out[it.name] = {'derives': derives, 'repr': reprs, 'other_attrs': others, 'fields': fields, 'pub': it.vis, 'asserts': []}
        order.append(it.name)
    # const _: () = assert!(<lhs> == <lit>, "msg");
    for it in its:
        if it.kind == 'const' and it.name == '_':
            ty, val = T.const_parts(it)
            if not (T.is_i(val[0], 'assert') and T.is_p(val[1], '!') and T.is_g(val[2], '()')):
                raise T.DecodeError('assertion item: ' + T.text(it.toks))
            parts = T.split_commas(val[2].v[1])
            cond = parts[0]
            eq = next((i for i, x in enumerate(cond) if T.is_p(x, '==')), None)
            if eq is None:
                raise T.DecodeError('assertion without ==: ' + T.text(cond))
            lhs, rhs = cond[:eq], cond[eq + 1:]
            from harness.decoders import lit_of
            lt = T.text(lhs)
            m1 = re.match(r'^std :: mem :: offset_of ! \((\w+) , (\w+|\{sym:[^}]+\})\)$', lt)
            m2 = re.match(r'^std :: mem :: size_of :: < (\w+) > \(\)$', lt)
            if len(rhs) != 1 or rhs[0].k != 'lit' or not (m1 or m2):
                raise T.DecodeError('assertion shape: ' + T.text(cond))
            rec = {'struct': (m1 or m2).group(1), 'field': m1.group(2) if m1 else None, 'value': lit_of(rhs[0])}
            if rec['struct'] in out:
                out[rec['struct']]['asserts'].append(rec)
            else:
                out.setdefault('?orphan_asserts', []).append(rec)
    return out, order


def set_inner(ctx, module, type_handle, inner):
    c = ctx.S.conv
    types = c.get(module, 'types').fields[0].items
    c.set(types[type_handle], 'inner', inner)
    st = getattr(module, 'sym_types', None) or set()
    st.add(type_handle)
    module.sym_types = st


def type_handles(mj):
    """name -> handle for named types, plus spelled leaf types"""
    h = {}
    for i, t in enumerate(mj['types']):
        if t['name']:
            h[t['name']] = i
    return h
