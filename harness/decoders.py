"""Decoders from emitted token trees (interpreter tokens or lexed real output) to facts."""
from mirsym.tokens import *
from mirsym.values import *


def expect_path(toks, *names):
    """tokens must be exactly the path a::b::c; returns remaining tokens"""
    i = 0
    for k, n in enumerate(names):
        if k:
            if not is_p(toks[i] if i < len(toks) else None, '::'):
                raise DecodeError(f'expected :: in path {"::".join(names)}: {text(toks)}')
            i += 1
        if not is_i(toks[i] if i < len(toks) else None, n):
            raise DecodeError(f'expected path {"::".join(names)}: {text(toks)}')
        i += 1
    return toks[i:]


def path_tail(toks, *prefix):
    """tokens = prefix::X [rest]; returns (X, rest)"""
    rest = expect_path(toks, *prefix)
    if not (len(rest) >= 2 and is_p(rest[0], '::') and rest[1].k == 'ident'):
        raise DecodeError(f'expected {"::".join(prefix)}::<name>: {text(toks)}')
    return rest[1].v, rest[2:]


def fields_dict(group_tok):
    out = {}
    for name, attrs, val in struct_fields(group_tok.v[1]):
        if name in out:
            raise DecodeError('duplicate field ' + str(name))
        out[name] = val
    return out


def lit_value(toks):
    if len(toks) != 1 or toks[0].k != 'lit':
        raise DecodeError('literal expected: ' + text(toks))
    kind, v = toks[0].v
    if kind == 'raw':
        m = re.match(r'^(\d+)(usize|u32|u64|i32)?$', v)
        if not m:
            raise DecodeError('integer literal expected: ' + v)
        return int(m.group(1))
    return v


def bool_value(toks):
    if len(toks) == 1 and is_i(toks[0], 'true'):
        return True
    if len(toks) == 1 and is_i(toks[0], 'false'):
        return False
    raise DecodeError('bool expected: ' + text(toks))


def decode_bgl_entry(toks):
    rest = expect_path(toks, 'wgpu', 'BindGroupLayoutEntry')
    if len(rest) != 1 or not is_g(rest[0], '{}'):
        raise DecodeError('BindGroupLayoutEntry body: ' + text(toks))
    f = fields_dict(rest[0])
    if set(f) != {'binding', 'visibility', 'ty', 'count'}:
        raise DecodeError('BindGroupLayoutEntry fields: ' + str(sorted(f)))
    d = {'binding': lit_value(f['binding']), 'visibility': eval_stages(f['visibility']),
         'count': text(f['count'])}
    kind, rest = path_tail(f['ty'], 'wgpu', 'BindingType')
    ty = {'kind': kind}
    if kind == 'Buffer':
        b = fields_dict(rest[0])
        if set(b) != {'ty', 'has_dynamic_offset', 'min_binding_size'}:
            raise DecodeError('Buffer fields ' + str(sorted(b)))
        bk, brest = path_tail(b['ty'], 'wgpu', 'BufferBindingType')
        if bk == 'Storage':
            ro = fields_dict(brest[0])
            ty['buffer'] = ('Storage', bool_value(ro['read_only']))
        elif bk == 'Uniform' and not brest:
            ty['buffer'] = ('Uniform', None)
        else:
            raise DecodeError('BufferBindingType ' + text(b['ty']))
        ty['has_dynamic_offset'] = bool_value(b['has_dynamic_offset'])
        ty['min_binding_size'] = text(b['min_binding_size'])
    elif kind == 'Texture':
        b = fields_dict(rest[0])
        if set(b) != {'sample_type', 'view_dimension', 'multisampled'}:
            raise DecodeError('Texture fields ' + str(sorted(b)))
        sk, srest = path_tail(b['sample_type'], 'wgpu', 'TextureSampleType')
        if sk == 'Float':
            ty['sample_type'] = ('Float', bool_value(fields_dict(srest[0])['filterable']))
        elif sk in ('Sint', 'Uint', 'Depth') and not srest:
            ty['sample_type'] = (sk, None)
        else:
            raise DecodeError('TextureSampleType ' + text(b['sample_type']))
        vd, r2 = path_tail(b['view_dimension'], 'wgpu', 'TextureViewDimension')
        if r2:
            raise DecodeError('view_dimension ' + text(b['view_dimension']))
        ty['view_dimension'] = vd
        ty['multisampled'] = bool_value(b['multisampled'])
    elif kind == 'StorageTexture':
        b = fields_dict(rest[0])
        if set(b) != {'access', 'format', 'view_dimension'}:
            raise DecodeError('StorageTexture fields ' + str(sorted(b)))
        ty['access'], r1 = path_tail(b['access'], 'wgpu', 'StorageTextureAccess')
        ty['format'], r2 = path_tail(b['format'], 'wgpu', 'TextureFormat')
        ty['view_dimension'], r3 = path_tail(b['view_dimension'], 'wgpu', 'TextureViewDimension')
        if r1 or r2 or r3:
            raise DecodeError('StorageTexture ' + text(f['ty']))
    elif kind == 'Sampler':
        if len(rest) != 1 or not is_g(rest[0], '()'):
            raise DecodeError('Sampler ' + text(f['ty']))
        ty['sampler'], r1 = path_tail(rest[0].v[1], 'wgpu', 'SamplerBindingType')
        if r1:
            raise DecodeError('Sampler ' + text(f['ty']))
    else:
        raise DecodeError('BindingType ' + str(kind))
    d['ty'] = ty
    return d
