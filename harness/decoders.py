"""Decoders from emitted token trees (interpreter tokens or lexed real output) to facts."""
from mirsym.tokens import *
from mirsym.values import *


def expect_path(toks, *names):
    """tokens must be exactly the path a::b::c; returns remaining tokens"""
    i = 0
    for k, n in enumerate(names):
        if k:
            if not is_p(toks[i] if i < len(toks) else None, '::'):
                raise DecodeError(f'expected :: in path {"::".join(names)}: {text(toks)}')
            i += 1
        if not is_i(toks[i] if i < len(toks) else None, n):
            raise DecodeError(f'expected path {"::".join(names)}: {text(toks)}')
        i += 1
    return toks[i:]


def path_tail(toks, *prefix):
    """tokens = prefix::X [rest]; returns (X, rest)"""
    rest = expect_path(toks, *prefix)
    if not (len(rest) >= 2 and is_p(rest[0], '::') and rest[1].k == 'ident'):
        raise DecodeError(f'expected {"::".join(prefix)}::<name>: {text(toks)}')
    return rest[1].v, rest[2:]


def fields_dict(group_tok):
    out = {}
    for name, attrs, val in struct_fields(group_tok.v[1]):
        if name in out:
            raise DecodeError('duplicate field ' + str(name))
        out[name] = val
    return out


def lit_value(toks):
    if len(toks) != 1 or toks[0].k != 'lit':
        raise DecodeError('literal expected: ' + text(toks))
    kind, v = toks[0].v
    if kind == 'raw':
        m = re.match(r'^(\d+)(usize|u32|u64|i32)?$', v)
        if not m:
            raise DecodeError('integer literal expected: ' + v)
        return int(m.group(1))
    return v


def bool_value(toks):
    if len(toks) == 1 and is_i(toks[0], 'true'):
        return True
    if len(toks) == 1 and is_i(toks[0], 'false'):
        return False
    raise DecodeError('bool expected: ' + text(toks))


def decode_bgl_entry(toks):
    rest = expect_path(toks, 'wgpu', 'BindGroupLayoutEntry')
    if len(rest) != 1 or not is_g(rest[0], '{}'):
        raise DecodeError('BindGroupLayoutEntry body: ' + text(toks))
    f = fields_dict(rest[0])
    if set(f) != {'binding', 'visibility', 'ty', 'count'}:
        raise DecodeError('BindGroupLayoutEntry fields: ' + str(sorted(f)))
    d = {'binding': lit_value(f['binding']), 'visibility': eval_stages(f['visibility']),
         'count': text(f['count'])}
    kind, rest = path_tail(f['ty'], 'wgpu', 'BindingType')
    ty = {'kind': kind}
    if kind == 'Buffer':
        b = fields_dict(rest[0])
        if set(b) != {'ty', 'has_dynamic_offset', 'min_binding_size'}:
            raise DecodeError('Buffer fields ' + str(sorted(b)))
        bk, brest = path_tail(b['ty'], 'wgpu', 'BufferBindingType')
        if bk == 'Storage':
            ro = fields_dict(brest[0])
            ty['buffer'] = ('Storage', bool_value(ro['read_only']))
        elif bk == 'Uniform' and not brest:
            ty['buffer'] = ('Uniform', None)
        else:
            raise DecodeError('BufferBindingType ' + text(b['ty']))
        ty['has_dynamic_offset'] = bool_value(b['has_dynamic_offset'])
        ty['min_binding_size'] = text(b['min_binding_size'])
    elif kind == 'Texture':
        b = fields_dict(rest[0])
        if set(b) != {'sample_type', 'view_dimension', 'multisampled'}:
            raise DecodeError('Texture fields ' + str(sorted(b)))
        sk, srest = path_tail(b['sample_type'], 'wgpu', 'TextureSampleType')
        if sk == 'Float':
            ty['sample_type'] = ('Float', bool_value(fields_dict(srest[0])['filterable']))
        elif sk in ('Sint', 'Uint', 'Depth') and not srest:
            ty['sample_type'] = (sk, None)
        else:
            raise DecodeError('TextureSampleType ' + text(b['sample_type']))
        vd, r2 = path_tail(b['view_dimension'], 'wgpu', 'TextureViewDimension')
        if r2:
            raise DecodeError('view_dimension ' + text(b['view_dimension']))
        ty['view_dimension'] = vd
        ty['multisampled'] = bool_value(b['multisampled'])
    elif kind == 'StorageTexture':
        b = fields_dict(rest[0])
        if set(b) != {'access', 'format', 'view_dimension'}:
            raise DecodeError('StorageTexture fields ' + str(sorted(b)))
        ty['access'], r1 = path_tail(b['access'], 'wgpu', 'StorageTextureAccess')
        ty['format'], r2 = path_tail(b['format'], 'wgpu', 'TextureFormat')
        ty['view_dimension'], r3 = path_tail(b['view_dimension'], 'wgpu', 'TextureViewDimension')
        if r1 or r2 or r3:
            raise DecodeError('StorageTexture ' + text(f['ty']))
    elif kind == 'Sampler':
        if len(rest) != 1 or not is_g(rest[0], '()'):
            raise DecodeError('Sampler ' + text(f['ty']))
        ty['sampler'], r1 = path_tail(rest[0].v[1], 'wgpu', 'SamplerBindingType')
        if r1:
            raise DecodeError('Sampler ' + text(f['ty']))
    else:
        raise DecodeError('BindingType ' + str(kind))
    d['ty'] = ty
    return d


# ------------------------------------------------------------------------------------------------ entry point helpers
def lit_of(tok):
    if tok.k != 'lit':
        raise DecodeError('literal expected: ' + text([tok]))
    kind, v = tok.v
    if kind == 'raw':
        m = re.match(r'^(\d+)(usize|u32|u64)?$', v)
        if not m:
            raise DecodeError('integer literal expected: ' + v)
        return int(m.group(1))
    return v


def generic_arg(toks, name):
    """`Name < X >` -> X tokens"""
    if not (is_i(toks[0], name) and is_p(toks[1], '<') and is_p(toks[-1], '>')):
        raise DecodeError(f'{name}<..> expected: {text(toks)}')
    return toks[2:-1]


def struct_lit(toks, *path):
    """`path { fields }` -> {field: tokens}"""
    rest = expect_path(toks, *path)
    if len(rest) != 1 or not is_g(rest[0], '{}'):
        raise DecodeError(f'{"::".join(path)} {{..}} expected: {text(toks)}')
    return dict((n, v) for n, _, v in struct_fields(rest[0].v[1]))


def decode_entry_items(toks):
    its = items(toks)
    out = {'entry_consts': {}, 'compute': [], 'fragment': {}, 'vertex': {}, 'items': its}
    for it in its:
        if it.kind == 'const' and it.name.startswith('ENTRY_'):
            ty, val = const_parts(it)
            if text(ty) != '& str' or len(val) != 1 or val[0].k != 'lit' or val[0].v[0] != 'string' or not it.vis:
                raise DecodeError('entry constant: ' + text(it.toks))
            if it.name in out['entry_consts']:
                raise DecodeError('duplicate ' + it.name)
            out['entry_consts'][it.name] = val[0].v[1]
    for m in find_items(its, 'mod', 'compute'):
        inner = items(body_of(m))
        for it in inner:
            if it.kind == 'const':
                ty, val = const_parts(it)
                if text(ty) != '[u32 ; 3]' or len(val) != 1 or not is_g(val[0], '[]'):
                    raise DecodeError('workgroup size: ' + text(it.toks))
                out['compute'].append({'const': it.name, 'size': [lit_of(x[0]) for x in split_commas(val[0].v[1])]})
            elif it.kind == 'fn':
                gen, params, ret, body = fn_parts(it)
                bt = text(body)
                desc = None
                for i, t in enumerate(body):
                    if is_i(t, 'ComputePipelineDescriptor') and is_g(body[i + 1] if i + 1 < len(body) else None, '{}'):
                        desc = dict((n, v) for n, _, v in struct_fields(body[i + 1].v[1]))
                # the descriptor sits inside `device.create_compute_pipeline(& wgpu::ComputePipelineDescriptor {..})`
                if desc is None:
                    for t in body:
                        if is_g(t, '()'):
                            inner_t = t.v[1]
                            for i, x in enumerate(inner_t):
                                if is_i(x, 'ComputePipelineDescriptor') and i + 1 < len(inner_t) and is_g(inner_t[i + 1], '{}'):
                                    desc = dict((n, v) for n, _, v in struct_fields(inner_t[i + 1].v[1]))
                if desc is None:
                    raise DecodeError('no ComputePipelineDescriptor in ' + it.name)
                out['compute'].append({'fn': it.name, 'ret': text(ret), 'body': bt, 'desc': {k: text(v) for k, v in desc.items()},
                                       'entry_point': desc.get('entry_point')})
    for it in its:
        if it.kind == 'fn' and it.name.endswith('_entry'):
            gen, params, ret, body = fn_parts(it)
            ps = split_commas(params)
            rname = ret[0].v if ret else None
            if rname == 'FragmentEntry':
                n_ret = lit_of(generic_arg(ret, 'FragmentEntry')[0])
                if not ps or not is_i(ps[0][0], 'targets'):
                    raise DecodeError('fragment entry params: ' + text(params))
                arr = ps[0][2]
                if not is_g(arr, '[]'):
                    raise DecodeError('targets type: ' + text(ps[0]))
                parts = arr.v[1]
                semi = next(i for i, t in enumerate(parts) if is_p(t, ';'))
                if text(parts[:semi]) != 'Option < wgpu :: ColorTargetState >':
                    raise DecodeError('targets element type: ' + text(parts[:semi]))
                n_param = lit_of(parts[semi + 1])
                lit = struct_lit(body, 'FragmentEntry')
                out['fragment'][it.name] = {'n_param': n_param, 'n_ret': n_ret, 'fields': {k: text(v) for k, v in lit.items()},
                                            'overrides_param': any(is_i(p[0], 'overrides') for p in ps[1:]), 'n_params': len(ps)}
            elif rname == 'VertexEntry':
                n_ret = lit_of(generic_arg(ret, 'VertexEntry')[0])
                lit = struct_lit(body, 'VertexEntry')
                bufs = next(t for t in lit['buffers'] if is_g(t, '[]'))
                out['vertex'][it.name] = {'n_ret': n_ret, 'params': [(p[0].v, text(p[2:])) for p in ps],
                                          'buffers': [text(b) for b in split_commas(bufs.v[1])],
                                          'fields': {k: text(v) for k, v in lit.items() if k != 'buffers'}}
    for nm in ('vertex_state', 'fragment_state'):
        f = find_items(its, 'fn', nm)
        if f:
            gen, params, ret, body = fn_parts(f[0])
            path = ('wgpu', 'VertexState') if nm == 'vertex_state' else ('wgpu', 'FragmentState')
            lit = struct_lit(body, *path)
            out[nm] = {'params': text(params), 'ret': text(ret), 'fields': {k: text(v) for k, v in lit.items()}}
    return out
