"""C04  Named bind group fields reach their own slot; groups bind at their own index.

Real code executed symbolically: bind_groups_module, bind_group_layout, bind_group_layout_descriptor, bind_group and the
pipeline-layout list of create_shader_module_inner.
Symbolic: the @binding index of every variable (all of u32, distinct within a group), the resource class of one variable
at a time (5 buffer shapes, texture, sampler); group membership and declaration order vary over concrete templates
(interleaved groups, 1..8 groups), because identifiers are built from group numbers.
"""
import z3
from harness.common import *
from harness.decoders import decode_bgl_entry, struct_lit, lit_of, fields_dict
from harness.c13 import decode_layout

KIND_DECL = {'Struct': 'var<uniform> {n}: SU;', 'Array': 'var<storage, read> {n}: array<vec4<f32>, 4>;', 'Scalar': 'var<uniform> {n}: f32;',
             'Vector': 'var<uniform> {n}: vec4<f32>;', 'Matrix': 'var<uniform> {n}: mat4x4<f32>;', 'Image': 'var {n}: texture_2d<f32>;',
             'Sampler': 'var {n}: sampler;'}
FIELD_TY = {'buffer': "wgpu :: BufferBinding < ' a >", 'Image': "& ' a wgpu :: TextureView", 'Sampler': "& ' a wgpu :: Sampler"}
RESOURCE = {'buffer': 'Buffer', 'Image': 'TextureView', 'Sampler': 'Sampler'}
ALL_KINDS = list(KIND_DECL)


def render(layout, kinds=None, indices=None):
    """layout: list of (group, name) in declaration order"""
    out = ['struct SU { a: vec4<f32> }', 'var<private> unbound_first: f32;']
    for i, (g, n) in enumerate(layout):
        if i == 1:
            out.append('var<workgroup> unbound_mid: array<u32, 4>;')      # a variable without @group/@binding between resource variables
        k = (kinds or {}).get(n, ALL_KINDS[i % len(ALL_KINDS)])
        b = (indices or {}).get(n, i)
        out.append(f'@group({g}) @binding({b}u) ' + KIND_DECL[k].format(n=n))
    out.append('var<push_constant> unbound_last: vec4<f32>;')
    out.append('@compute @workgroup_size(1) fn main() {}')
    return '\n'.join(out) + '\n'


def decode_groups(toks):
    its = T.items(toks)
    mod = T.find_items(its, 'mod', 'bind_groups')
    out = {'groups': {}, 'items': its}
    if not mod:
        return out
    inner = T.items(T.body_of(mod[0]))
    out['inner'] = inner
    for st in T.find_items(inner, 'struct'):
        if st.name.startswith('BindGroupLayout'):
            n = st.name[len('BindGroupLayout'):]
            g = out['groups'].setdefault(n, {})
            g['fields'] = [(f[0], T.text(f[2])) for f in T.struct_fields(T.body_of(st))]
            g['layout_generics'] = T.text(st.toks)[:0]
        elif st.name.startswith('BindGroup') and st.name != 'BindGroups':
            n = st.name[len('BindGroup'):]
            out['groups'].setdefault(n, {})['tuple_struct'] = T.text(st.toks)
    for cst in T.find_items(inner, 'const'):
        if cst.name.startswith('LAYOUT_DESCRIPTOR'):
            n = cst.name[len('LAYOUT_DESCRIPTOR'):]
            ty, val = T.const_parts(cst)
            fl = struct_lit(val, 'wgpu', 'BindGroupLayoutDescriptor')
            arr = next(t for t in fl['entries'] if T.is_g(t, '[]'))
            out['groups'].setdefault(n, {})['entries'] = [decode_bgl_entry(e) for e in T.split_commas(arr.v[1])]
            out['groups'][n]['label'] = T.text(fl['label'])
    for im in T.find_items(inner, 'impl'):
        if im.name.startswith('BindGroup') and im.name not in ('BindGroups < \'_ >',) and ' for ' not in im.name and not im.name.startswith('BindGroups'):
            n = im.name[len('BindGroup'):]
            g = out['groups'].setdefault(n, {})
            fns = {f.name: f for f in T.items(T.body_of(im))}
            g['impl_fns'] = sorted(fns)
            if 'get_bind_group_layout' in fns:
                g['get_layout_body'] = T.text(T.fn_parts(fns['get_bind_group_layout'])[3])
            if 'set' in fns:
                g['set_body'] = T.text(T.fn_parts(fns['set'])[3])
                body = T.fn_parts(fns['set'])[3]
                call = next((t for t in body if T.is_g(t, '()')), None)
                g['set_args'] = [x for x in T.split_commas(call.v[1])] if call else None
            if 'from_bindings' in fns:
                gen, params, ret, body = T.fn_parts(fns['from_bindings'])
                g['from_params'] = T.text(params)
                g['from_body_text'] = T.text(body)
                desc = find_struct(body, 'BindGroupDescriptor')
                if desc is None:
                    raise T.DecodeError('no BindGroupDescriptor')
                g['desc'] = {k: T.text(v) for k, v in desc.items() if k != 'entries'}
                arr = next(t for t in desc['entries'] if T.is_g(t, '[]'))
                es = []
                for e in T.split_commas(arr.v[1]):
                    fl = struct_lit(e, 'wgpu', 'BindGroupEntry')
                    es.append({'binding': lit_of(fl['binding'][0]), 'resource': T.text(fl['resource'])})
                g['bg_entries'] = es
    bgs = T.find_items(inner, 'struct', 'BindGroups')
    if bgs:
        out['BindGroups_fields'] = [(f[0], T.text(f[2])) for f in T.struct_fields(T.body_of(bgs[0]))]
    for im in T.find_items(inner, 'impl'):
        if im.name.startswith('BindGroups'):
            fns = {f.name: f for f in T.items(T.body_of(im))}
            out['BindGroups_set'] = T.text(T.fn_parts(fns['set'])[3]) if 'set' in fns else None
        elif ' for ' in im.name:
            out.setdefault('trait_impls', {})[im.name] = T.text(T.body_of(im))
    tr = T.find_items(inner, 'trait', 'SetBindGroup')
    out['trait'] = T.text(T.body_of(tr[0])) if tr else None
    sbg = T.find_items(its, 'fn', 'set_bind_groups')
    if sbg:
        gen, params, ret, body = T.fn_parts(sbg[0])
        out['set_bind_groups'] = {'generics': T.text(gen), 'params': [T.text(p) for p in T.split_commas(params)], 'body': T.text(body)}
    return out


def find_struct(toks, name):
    for i, t in enumerate(toks):
        if T.is_i(t, name) and i + 1 < len(toks) and T.is_g(toks[i + 1], '{}'):
            return dict((n, v) for n, _, v in T.struct_fields(toks[i + 1].v[1]))
        if t.k == 'group':
            r = find_struct(t.v[1], name)
            if r is not None:
                return r
    return None


FWD = 'self . set_bind_group (index , bind_group , offsets) ;'
SIG = "fn set_bind_group (& mut self , index : u32 , bind_group : & wgpu :: BindGroup , offsets : & [wgpu :: DynamicOffset] ,)"


def conditions(dg, layout, idx, kind_of, pipeline_layouts):
    """idx[name] = z3 term or int of the binding index; kind_of[name] = (z3 disc term, {kindname: disc}) or concrete kind name"""
    B = z3.BoolVal
    conds = []
    groups = sorted({g for g, _ in layout})
    conds.append(('one layout/struct/impl per group', B(sorted(dg['groups'], key=int) == [str(g) for g in groups])))
    for g in groups:
        G = dg['groups'].get(str(g))
        if G is None:
            continue
        names = [n for gg, n in layout if gg == g]
        conds.append((f'group {g}: tuple struct', B(G.get('tuple_struct') == f'# [derive (Debug)] pub struct BindGroup{g} (wgpu :: BindGroup) ;')))
        fields = G.get('fields', [])
        conds.append((f'group {g}: exactly one field per variable, named after it', B([f[0] for f in fields] == names)))
        for (fn_, fty), n in zip(fields, names):
            conds.append((f'group {g}: field {n} typed by resource kind', kind_cond(kind_of[n], lambda k: fty == FIELD_TY.get(k, FIELD_TY['buffer']))))
        ents, bges = G.get('entries', []), G.get('bg_entries', [])
        conds.append((f'group {g}: one layout entry and one bind group entry per variable', B(len(ents) == len(names) and len(bges) == len(names))))
        for n, e, be in zip(names, ents, bges):
            conds.append((f'group {g}: layout entry of {n} carries its @binding', eq_idx(e['binding'], idx[n])))
            conds.append((f'group {g}: value of field {n} goes to the @binding of {n}', eq_idx(be['binding'], idx[n])))
            conds.append((f'group {g}: resource of {n} is built from bindings.{n} with the matching variant',
                          kind_cond(kind_of[n], lambda k, n=n, be=be: be['resource'] == f'wgpu :: BindingResource :: {RESOURCE.get(k, "Buffer")} (bindings . {n})')))
        conds.append((f'group {g}: from_bindings uses LAYOUT_DESCRIPTOR{g} and that layout',
                      B(G.get('from_params') == f'device : & wgpu :: Device , bindings : BindGroupLayout{g}'
                        and G.get('desc', {}).get('layout') == '& bind_group_layout'
                        and f'let bind_group_layout = device . create_bind_group_layout (& LAYOUT_DESCRIPTOR{g}) ;' in G.get('from_body_text', '')
                        and G.get('from_body_text', '').endswith('Self (bind_group)')
                        and 'let bind_group = device . create_bind_group (& wgpu :: BindGroupDescriptor' in G.get('from_body_text', ''))))
        conds.append((f'group {g}: get_bind_group_layout uses LAYOUT_DESCRIPTOR{g}', B(G.get('get_layout_body') == f'device . create_bind_group_layout (& LAYOUT_DESCRIPTOR{g})')))
        conds.append((f'group {g}: set binds at index {g}', B(G.get('set_body') == f'pass . set_bind_group ({g} , & self . 0 , & []) ;')))
    conds.append(('BindGroups has one reference per group', B(dg.get('BindGroups_fields') == [(f'bind_group{g}', f"& ' a BindGroup{g}") for g in groups])))
    conds.append(('BindGroups::set sets every group once', B(dg.get('BindGroups_set') == ' '.join(f'self . bind_group{g} . set (pass) ;' for g in groups))))
    sb = dg.get('set_bind_groups') or {}
    conds.append(('set_bind_groups sets every group once', B(sb.get('body') == ' '.join(f'bind_group{g} . set (pass) ;' for g in groups)
                                                            and sb.get('params') == ['pass : & mut P'] + [f'bind_group{g} : & bind_groups :: BindGroup{g}' for g in groups])))
    ti = dg.get('trait_impls') or {}
    nz = lambda x: x.replace(' ', '').replace(',)', ')')
    want_impls = {nz(f"SetBindGroup for wgpu :: {p} < '_ >") for p in ('ComputePass', 'RenderPass', 'RenderBundleEncoder')}
    conds.append(('SetBindGroup implemented for compute pass, render pass, render bundle encoder, forwarding (index, bind_group, offsets)',
                  B({nz(k) for k in ti} == want_impls and len(ti) == 3 and all(nz(v) == nz(f'{SIG} {{{FWD}}}') for v in ti.values())
                    and nz(dg.get('trait') or '') == nz(SIG + ' ;'))))
    conds.append(('pipeline layout lists the group layouts in index order',
                  B(pipeline_layouts == [f'& bind_groups :: BindGroup{g} :: get_bind_group_layout (device)' for g in groups])))
    return conds


def kind_cond(k, pred):
    if isinstance(k, str):
        return z3.BoolVal(bool(pred(k if k in ('Image', 'Sampler') else 'buffer')))
    term, table = k
    return z3.And([z3.Implies(term == d, z3.BoolVal(bool(pred(n if n in ('Image', 'Sampler') else 'buffer')))) for n, d in table.items()])


def eq_idx(got, want):
    if is_sym(got) or is_sym(want):
        g = got if is_sym(got) else z3.BitVecVal(got, 64)
        w = want if is_sym(want) else z3.BitVecVal(want, 64)
        if w.size() < g.size():
            w = z3.ZeroExt(g.size() - w.size(), w)
        if g.size() < w.size():
            g = z3.ZeroExt(w.size() - g.size(), g)
        return g == w
    return z3.BoolVal(got == want)


LAYOUTS = {
    'interleaved-2-groups': [(1, 'a'), (0, 'b'), (1, 'c'), (0, 'd')],
    'one-group-3': [(0, 'x'), (0, 'y'), (0, 'z')],
    'three-groups': [(2, 'p'), (0, 'q'), (1, 'r'), (2, 's')],
    'eight-groups': [(g, f'v{g}') for g in (3, 7, 0, 5, 1, 6, 2, 4)],
}


def run(ctx):
    S, c = ctx.S, ctx.S.conv
    TI = {v['name']: v['disc'] for v in S.schema['enums']['TypeInner']}
    table = {k: TI[k] for k in ALL_KINDS}
    quick = ctx.tier == 'quick'
    ctx.bounds = {'templates': {k: v for k, v in LAYOUTS.items()}, 'binding indices': 'all of u32, distinct within a group (symbolic)',
                  'resource class': 'symbolic for one variable per run (quick) / two (thorough)'}
    ctx.assumptions += ['group numbers are concrete per template (identifiers are built from them); the group-key logic over symbolic u32 is C11',
                        'binding indices within one group are distinct (otherwise generation returns DuplicateBinding, see C11)',
                        'the by-kind payload of textures/samplers is concrete (texture_2d<f32>, sampler); all payloads are C02']
    seen = {}
    for lname, layout in LAYOUTS.items():
        src = render(layout)
        d = S.dump(src)
        mj = d['module']
        sym_sets = [[layout[0][1]]] if quick else [[layout[0][1]], [layout[-1][1], layout[1][1]]]
        if lname == 'eight-groups':
            sym_sets = [[]]
        for sym_kinds in sym_sets:
            module = c.module(S.dump(src))
            gvs = c.get(module, 'global_variables').fields[0].items
            types = c.get(module, 'types').fields[0].items
            idx, kind_of, assume = {}, {}, []
            gi = {g['name']: i for i, g in enumerate(mj['global_variables'])}
            for i_, (g, n) in enumerate(layout):
                gv = gvs[gi[n]]
                if lname != 'eight-groups':
                    t = z3.BitVec(f'binding_{n}', 32)
                    rb = c.get(gv, 'binding').fields[0]
                    c.set(rb, 'binding', t)
                    idx[n] = t
                else:
                    idx[n] = i_
                kind_of[n] = next(k for k in ALL_KINDS if KIND_DECL[k].format(n=n) in src)
                if n in sym_kinds:
                    kt = z3.BitVec(f'kind_{n}', 64)
                    ty_h = c.get(gv, 'ty')
                    # give the variable its own type entry whose inner is symbolic over the 7 resource classes
                    img = next(t for t in types if c.get(t, 'inner').variant == 'Image') if any(c.get(t, 'inner').variant == 'Image' for t in types) else None
                    payload = {'Struct': [VecV(), 16], 'Array': [0, c.enum('ArraySize', 'Constant', [4]), 16],
                               'Scalar': [Agg('Scalar', [c.enum('ScalarKind', 'Float'), 4])],
                               'Vector': [c.enum('VectorSize', 'Quad'), Agg('Scalar', [c.enum('ScalarKind', 'Float'), 4])],
                               'Matrix': [c.enum('VectorSize', 'Quad'), c.enum('VectorSize', 'Quad'), Agg('Scalar', [c.enum('ScalarKind', 'Float'), 4])],
                               'Image': [c.enum('ImageDimension', 'D2'), False, c.enum('ImageClass', 'Sampled', [c.enum('ScalarKind', 'Float'), False])],
                               'Sampler': [False]}
                    newt = Agg('Type', [some('SX'), c.sym_enum('TypeInner', kt, payload)])
                    types.append(newt)
                    c.set(gv, 'ty', len(types) - 1)
                    module.sym_types = (getattr(module, 'sym_types', None) or set()) | {len(types) - 1}
                    kind_of[n] = (kt, table)
                    assume.append(z3.Or([kt == v for v in table.values()]))
            for g in {g for g, _ in layout}:
                ns = [n for gg, n in layout if gg == g]
                for a in range(len(ns)):
                    for b in range(a):
                        if is_sym(idx[ns[a]]):
                            assume.append(idx[ns[a]] != idx[ns[b]])
            env = env_passthrough(module, src)
            res = ctx.explore(f'create_shader_module_inner/{lname}/kinds={sym_kinds}',
                              lambda it: it.call('create_shader_module_inner', [src, none(), write_options(S.conv)]),
                              assume=assume, env=env, anchors=['bind_groups_module', 'bind_group_layout', 'bind_group', 'bind_group_layout_descriptor'],
                              timeout_s=3000)
            for pc, kind, out, _ in res:
                if kind == 'panic' or out.disc != 0:
                    m = ctx.witness(pc)
                    raise Inconclusive(f'bind group template did not generate: {kind} {out}')
                toks = out.fields[0].toks
                dg = decode_groups(toks)
                _, _, layouts, _ = decode_layout(toks)
                conds = conditions(dg, layout, idx, kind_of, layouts)
                m = ctx.check(pc, z3.Or([z3.Not(c_) for _, c_ in conds]))
                if m is None:
                    continue
                failed = [n for n, c_ in conds if not z3.is_true(m.eval(c_, model_completion=True))]
                key = 'C04/' + failed[0].split(':')[-1].strip()
                seen[key] = seen.get(key, 0) + 1
                if seen[key] > 1:
                    continue
                iv = {n: (model_value(m, t) if is_sym(t) else t) for n, t in idx.items()}
                kv = {n: (next(k for k, dd in table.items() if dd == model_value(m, kk[0])) if not isinstance(kk, str) else kk) for n, kk in kind_of.items()}
                rep, det = replay(ctx, layout, kv, iv)
                ctx.report(key, f'{failed[0]} (template {lname}, bindings {iv}, kinds {kv})', det, rep, det)
            oks = [r for r in res if r[1] == 'ok']
            ctx.vacuity_witness('bind group assertions reachable', oks[0][0])
            for r in oks[:: max(1, len(oks) // (2 if quick else 7))]:
                m = ctx.witness(r[0])
                iv = {n: (model_value(m, t) if is_sym(t) else t) for n, t in idx.items()}
                kv = {n: (next(k for k, dd in table.items() if dd == model_value(m, kk[0])) if not isinstance(kk, str) else kk) for n, kk in kind_of.items()}
                ctx.differential(render(layout, kv, iv), {})
                ctx.sample({'template': lname, 'bindings': iv, 'kinds': kv})
    ctx.extra['violations_by_rule'] = seen


def replay(ctx, layout, kv, iv):
    src = render(layout, kv, iv)
    kind, toks, _ = ctx.gen_tokens(src, {})
    det = {'wgsl': src}
    if kind != 'ok':
        det['real'] = f'{kind}: {str(toks)[:200]}'
        return True, det
    try:
        dg = decode_groups(toks)
        _, _, layouts, _ = decode_layout(toks)
    except T.DecodeError as e:
        det['real'] = f'does not decode: {e}'
        return True, det
    conds = conditions(dg, layout, iv, kv, layouts)
    bad = [n for n, c_ in conds if not z3.is_true(z3.simplify(c_))]
    det['failed'] = bad
    return bool(bad), det


def native(ctx):
    """supplement when the symbolic part is inconclusive: seeded random binding indices / kinds on every template, real build, same conditions"""
    n = 6 if ctx.tier == 'quick' else 60
    done = False
    for lname, layout in LAYOUTS.items():
        for k in range(n):
            pool = [0, 1, 2, 3, 5, 7, 31, 255, 65535, 2 ** 31, 2 ** 32 - 1] + [ctx.rng.randrange(2 ** 32) for _ in range(4)]
            iv, used = {}, {}
            for g, nm in layout:
                while True:
                    v = ctx.rng.choice(pool)
                    if v not in used.setdefault(g, set()):
                        used[g].add(v)
                        iv[nm] = v
                        break
            kv = {nm: ctx.rng.choice(ALL_KINDS) for _, nm in layout}
            rep, det = replay(ctx, layout, kv, iv)
            if rep and not done:
                done = True
                ctx.report('C04/native', f'template {lname}, bindings {iv}, kinds {kv}: {det.get("failed") or det.get("real")}', det, True, det)
            elif not rep:
                ctx.replayed_ok += 1

if __name__ == '__main__':
    sys.exit(main('C04', run, native))
