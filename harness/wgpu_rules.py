"""Tables read from the locked wgpu-core / naga sources, and the transcription of wgpu-core 24.0.5's binding rules used as
the oracle of C02 (validation.rs `Resource::check_binding_use`, device/resource.rs `create_bind_group_layout`)."""
import glob
import re

REG = '/root/.cargo/registry/src/*/'


def _read(pat):
    return open(glob.glob(REG + pat)[0]).read()


def tf_to_sf():
    """wgpu TextureFormat variant -> naga StorageFormat variant (map_storage_format_to_naga)"""
    src = _read('wgpu-core-24.0.5/src/validation.rs')
    body = src[src.index('pub fn map_storage_format_to_naga'):src.index('pub fn map_storage_format_from_naga')]
    return dict(re.findall(r'Tf::(\w+) => Sf::(\w+)', body))


def wgsl_format_names():
    """naga StorageFormat variant -> WGSL spelling"""
    src = _read('naga-24.0.0/src/front/wgsl/parse/conv.rs')
    body = src[src.index('pub fn map_storage_format'):]
    body = body[:body.index('\n}\n')]
    return {v: k for k, v in re.findall(r'"(\w+)" => Sf::(\w+)', body)}


VIEW_DIM = {('D1', False): 'D1', ('D2', False): 'D2', ('D2', True): 'D2Array', ('D3', False): 'D3',
            ('Cube', False): 'Cube', ('Cube', True): 'CubeArray'}
