"""C19  Formatter choice and formatter failure never change the program.

Real code executed symbolically: pretty_print_rustfmt, pretty_print and the tail of create_shader_module_inner.
The environment is a fault model made of nondeterministic stubs:
  Command::spawn        -> Ok(child with piped stdin) | Err           (formatter missing)
  write_all             -> Ok | Err(io::Error)                        (formatter exits / is killed before or while reading;
                                                                       any output size: the pipe-buffer threshold is subsumed)
  wait_with_output      -> Ok(Output{status: success | failure/signal, stdout: empty | valid UTF-8 text | invalid UTF-8})
  String::from_utf8     -> Ok iff the bytes are valid UTF-8
Oracle: no path panics; the formatter's text is returned only when it succeeded, was fed completely and printed
non-empty UTF-8; otherwise exactly tokens.to_string().
"""
import os
import stat
import tempfile
import z3
from harness.common import *
from mirsym.oracle import Oracle


class OutBytes:
    """stdout of the child: one of empty / text / garbage (symbolic choice)"""

    def __init__(self, kind):
        self.kind = kind      # BitVec 8: 0 empty, 1 valid text, 2 invalid utf-8


class OutStr:
    def __init__(self, empty):
        self.empty = empty

    def __repr__(self):
        return 'FormatterStdout'


def fault_env(log):
    def spawn(it, cmd):
        log['cmd'] = cmd.fields[0]
        okv = it.truth(it.fresh('spawn_ok', 'bool'))
        log['spawn'] = okv
        if not okv:
            return err(Opaque('io::Error(NotFound)'))
        return ok(Agg('Child', [Opaque('handle'), some(Opaque('ChildStdin')), some(Opaque('ChildStdout')), none()]))

    def write_all(it, stdin, data):
        log['written'] = deref(data)
        okv = it.truth(it.fresh('write_ok', 'bool'))
        log['write'] = okv
        return ok(unit()) if okv else err(Opaque('io::Error(BrokenPipe)'))

    def wait_with_output(it, child):
        log['waited'] = True
        how = it.concretize(it.fresh('exit_kind', 8), [0, 1, 2])          # 0 exit(0), 1 exit(non-zero), 2 killed by a signal (no exit code)
        if how is None:
            how = 1
        success = how == 0
        kind = it.concretize(it.fresh('stdout_kind', 8), [0, 1, 2])
        if kind is None:
            kind = 0
        log['success'], log['stdout'], log['how'] = success, kind, how
        status = Agg('ExitStatus', [success, some(0) if how == 0 else (some(1) if how == 1 else none()), some(9) if how == 2 else none()])
        return ok(Agg('Output', [status, OutBytes(kind), VecV()]))

    def child_wait(it, child, how_):
        # waiting without draining stdout: a formatter that has more to print than the pipe buffer holds never exits
        if log.get('spawn') and 'stdout_read' not in log:
            big = it.truth(it.fresh('output_exceeds_pipe_buffer', 'bool'))
            log['big'] = big
            if big and log.get('write', True):
                raise Panic('HANG: waits for the formatter before reading its output (output larger than the pipe buffer)')
        r = wait_with_output(it, child)
        out_ = r.fields[0]
        log['pending_stdout'] = out_.fields[1]
        return ok(out_.fields[0])

    def child_read(it, stdout, buf):
        log['stdout_read'] = True
        b = log.get('pending_stdout')
        if b is None:
            # reading before waiting: the harness decides the content now
            kind = it.concretize(it.fresh('stdout_kind', 8), [0, 1, 2])
            b = OutBytes(kind or 0)
            log['stdout'] = b.kind
        if b.kind == 2:
            return err(Opaque('io::Error(InvalidData)'))
        if buf is not None:
            buf.set(OutStr(b.kind == 0))
        return ok(0 if b.kind == 0 else 1)

    def from_utf8(it, b):
        if not isinstance(b, OutBytes):
            raise Unsupported('from_utf8 of something that is not the child stdout')
        if b.kind == 2:
            return err(Opaque('FromUtf8Error'))
        return ok(OutStr(b.kind == 0))
    return {'spawn': spawn, 'write_all': write_all, 'wait_with_output': wait_with_output, 'from_utf8': from_utf8,
            'child_wait': child_wait, 'child_read': child_read}


# ---- native replay -----------------------------------------------------------------------------------------------------
FAKES = {
    'absent': None,
    'exit1_after_reading': '#!/bin/sh\ncat > /dev/null\nexit 1\n',
    'exit0_without_reading': '#!/bin/sh\nexec 0<&-\nexit 0\n',
    'exit1_without_reading': '#!/bin/sh\nexec 0<&-\nexit 1\n',
    'killed': '#!/bin/sh\nkill -9 $$\n',
    'killed_after_reading': '#!/bin/sh\ncat > /dev/null\nkill -9 $$\n',
    'killed_after_partial_output': '#!/bin/sh\ncat > /dev/null\necho "pub mod partial {"\nkill -9 $$\n',
    'empty_output': '#!/bin/sh\ncat > /dev/null\nexit 0\n',
    # stops reading part way, prints what it read, exits 0: above the pipe buffer the writer sees a broken pipe
    'exit0_after_partial_read_with_output': '#!/bin/sh\nhead -c 3000\nexit 0\n',
    'invalid_utf8': '#!/bin/sh\ncat > /dev/null\nprintf "\\377\\376"\nexit 0\n',
    # like the real rustfmt, read everything before printing (a streaming filter would dead-lock on outputs above the pipe buffer)
    'working': '#!/bin/sh\nt=$(mktemp)\ncat > "$t"\ncat "$t"\nrm -f "$t"\nexit 0\n',
}


def scenario_of(log):
    if not log.get('spawn'):
        return 'absent'
    if not log.get('write'):
        if log.get('success'):
            return 'exit0_after_partial_read_with_output' if log.get('stdout') == 1 else 'exit0_without_reading'
        return 'exit1_without_reading'
    if log.get('how') == 2:
        return 'killed_after_partial_output' if log.get('stdout') else 'killed_after_reading'
    if not log.get('success'):
        return 'exit1_after_reading'
    return {0: 'empty_output', 1: 'working', 2: 'invalid_utf8'}[log.get('stdout', 0)]


def native_run(ctx, scenario, big):
    """run the REAL generator with rustfmt = the fake; returns ('ok', text) | ('panic', msg) and the unformatted reference"""
    d = tempfile.mkdtemp(prefix='fakefmt', dir=os.path.join(VERIF, '.cache'))
    try:
        if FAKES[scenario] is not None:
            p = os.path.join(d, 'rustfmt')
            open(p, 'w').write(FAKES[scenario])
            os.chmod(p, 0o755)
        o = Oracle(env={'PATH': d + ':/bin:/usr/bin'})
        # the embedded SOURCE literal is part of the program: text with `} `, `; `, `{ ` and quotes must survive formatter and fallback alike
        src = ('fn h(x: f32) -> f32 { if (x > 0.0) { return 1.0; } else { return 2.0; } } // "q" \\ { } ;  \n@fragment fn main() {}\n'
               + ('// ' + 'x' * 100 + '\n') * (3000 if big is True else 0))
        if isinstance(big, int) and not isinstance(big, bool):
            # above the pipe buffer, made of 3-byte characters at a given alignment: code that cuts the text by BYTES must respect characters
            src += '//' + 'y' * big + ('\u2192' * 40 + '\n// ') * 1200 + '\n'
        r = o.req(cmd='gen', wgsl=src, options={'rustfmt': True}, include=None, _timeout=30)      # a hang is a finding, not a wait
        o.close()
        r0 = ctx.S.oracle.gen(src, {'rustfmt': False})
        return r, r0
    finally:
        import shutil
        shutil.rmtree(d, ignore_errors=True)


def same_program(ctx, a, b):
    ta = ctx.S.oracle.lex(a)
    tb = ctx.S.oracle.lex(b)
    if 'tokens' not in ta or 'tokens' not in tb:
        return False
    return T.first_diff(T.canon(T.from_json(ta['tokens'])), T.canon(T.from_json(tb['tokens']))) is None


def run(ctx):
    ctx.stubs = ['Command::spawn', 'ChildStdin::write_all', 'Child::wait_with_output', 'ExitStatus::success', 'String::from_utf8',
                 'syn::parse_file (passes the token string through)', 'prettyplease::unparse (passes the token string through)']
    ctx.assumptions += ['a spawned child has a piped stdin (contract of Stdio::piped)', 'wait_with_output itself returns Ok once the child was spawned',
                        'that a WORKING rustfmt / prettyplease preserves tokens is outside the claim (their code is not encoded); hangs of a slow formatter too']
    ctx.bounds = {'fault schedule': 'every combination of spawn ok/err, write ok/err, exit success/failure, stdout empty/text/garbage'}
    toks = TokStream([Tok('ident', 'pub'), Tok('ident', 'mod'), Tok('ident', 'x'), Tok('group', ('{}', []))])
    logs = []

    def go(it):
        log = {}
        logs.append(log)
        it.env.update(fault_env(log))
        out = it.call('pretty_print_rustfmt', [TokStream(list(toks.toks))])
        log['out'] = out
        return out
    res = ctx.explore('pretty_print_rustfmt/fault-model', go, anchors=['pretty_print_rustfmt'])
    # explore() re-runs from scratch per path: logs[i] belongs to path i in order of completion
    seen = {}
    if len(logs) != len(res):
        raise Inconclusive('log/path mismatch')
    for (pc, kind, out, _), log in zip(res, logs):
        sc = scenario_of(log)
        should_format = log.get('spawn') and log.get('write') and log.get('success') and log.get('stdout') == 1
        bad = None
        if kind == 'panic':
            bad = f'hangs ({out[:110]})' if out.startswith('HANG') else f'panics ({out[:80]})'
            if out.startswith('HANG'):
                sc = 'working'
        elif should_format:
            if not isinstance(out, OutStr):
                bad = 'formatter succeeded but its output was not returned'
        elif not isinstance(out, TokString):
            bad = f'returns {out!r} (text that went through a text-altering operation) instead of the unformatted program'
        else:
            if not (out.via == ('to_string',) and T.first_diff(T.canon(out.toks), T.canon(toks.toks)) is None):
                bad = f'returns {out!r} instead of the unformatted program'
        ctx.queries['discharged'] += 1
        if bad is None:
            ctx.queries['unsat'] += 1
            continue
        ctx.queries['sat'] += 1
        key = f'C19/{sc}'
        seen[key] = seen.get(key, 0) + 1
        if seen[key] > 1:
            continue
        rep, det = False, None
        for big in (True, False):
            r, r0 = native_run(ctx, sc, big)
            det = {'scenario': sc, 'fake_rustfmt': FAKES[sc], 'output_over_64KiB': big, 'real': str(r)[:200]}
            if 'panic' in r or 'crash' in r or 'hang' in r:
                rep = True
            elif 'ok' in r and 'ok' in r0 and not same_program(ctx, r['ok'], r0['ok']):
                rep = True
                det['real'] = 'returned text is not the program: ' + repr(r['ok'][:80])
            if rep:
                break
        ctx.report(key, f'formatter fault "{sc}": pretty_print_rustfmt {bad}', det, rep, det)
    ctx.extra['fault_paths'] = [{'scenario': scenario_of(l), 'outcome': (r[1] if r[1] == 'panic' else type(r[2]).__name__)} for r, l in zip(res, logs)]
    ctx.vacuity_witness('fault model paths', res[0][0])

    # ---- formatter choice: same tokens handed to both printers ---------------------------------------------------------
    src = open('/repo/wgsl_to_wgpu/src/data/bindgroup/vertex_fragment.wgsl').read()
    module = ctx.S.module(src)
    rustfmt = z3.Bool('options_rustfmt')
    env = env_passthrough(module, src)
    log = {}
    env.update(fault_env(log))

    def go2(it):
        it.env['spawn'] = lambda it_, cmd: err(Opaque('io::Error'))        # formatter absent: the raw string comes back
        return it.call('create_shader_module_inner', [src, none(), write_options(ctx.S.conv, rustfmt=rustfmt)])
    res2 = ctx.explore('create_shader_module_inner/rustfmt-on-off', go2, env=env, anchors=['pretty_print', 'pretty_print_rustfmt'])
    outs = {}
    for pc, kind, out, _ in res2:
        if kind == 'panic' or out.disc != 0:
            raise Inconclusive(f'fixture did not generate: {kind} {out}')
        m = ctx.witness(pc)
        outs[model_value(m, rustfmt)] = out.fields[0]
    if set(outs) != {True, False}:
        raise Inconclusive('rustfmt option did not fork')
    d = T.first_diff(T.canon(outs[True].toks), T.canon(outs[False].toks))
    ctx.queries['discharged'] += 1
    if d is not None:
        ctx.queries['sat'] += 1
        r1, r0 = ctx.S.oracle.gen(src, {'rustfmt': True}), ctx.S.oracle.gen(src, {'rustfmt': False})
        rep = not same_program(ctx, r1.get('ok', ''), r0.get('ok', ''))
        ctx.report('C19/option-changes-tokens', f'rustfmt on/off hand different tokens to the printers: {d}', {'wgsl': src}, rep)
    else:
        ctx.queries['unsat'] += 1
    if outs[False].via != ('to_string', 'prettyplease') or outs[True].via != ('to_string',):
        ctx.report('C19/printer-choice', f'unexpected printers: on={outs[True].via} off={outs[False].via}', {'wgsl': src}, False)
    # native: real rustfmt vs prettyplease on the repository fixtures -> same program (translator validation of the claim's spirit)
    import glob
    fixtures = sorted(glob.glob('/repo/wgsl_to_wgpu/src/data/**/*.wgsl', recursive=True))
    for f in fixtures[:: (3 if ctx.tier == 'quick' else 1)]:
        s_ = open(f).read()
        r1, r0 = ctx.S.oracle.gen(s_, {'rustfmt': True, 'derive_encase_host_shareable': True}), ctx.S.oracle.gen(s_, {'derive_encase_host_shareable': True})
        if 'ok' in r1 and 'ok' in r0:
            if not same_program(ctx, r1['ok'], r0['ok']):
                ctx.report('C19/real-rustfmt-differs', f'real rustfmt output is a different program for {f}', {'wgsl': s_}, True)
            else:
                ctx.replayed_ok += 1
    native_all(ctx, seen)
    ctx.extra['violations_by_scenario'] = seen


REAL_FMT_SRCS = [
    'struct RtHost { n: u32, data: array<vec4<f32>> }\n@group(0) @binding(0) var<storage, read> rt: RtHost;\nstruct U { a: f32, b: vec3<f32> }\n'
    '@group(0) @binding(1) var<uniform> u: U;\nstruct VIn { @location(0) p: vec4<f32> }\n@vertex fn vs(i: VIn) -> @builtin(position) vec4<f32> { return i.p; }\n'
    '@fragment fn fs() -> @location(0) vec4<f32> { return vec4<f32>(u.a); }\n@compute @workgroup_size(8, 4) fn cs() { let n = arrayLength(&rt.data); }\n',
    'override gain: f32 = 2.0;\n@id(3) override flag: bool;\nconst K: u32 = 3u;\nvar<push_constant> pc: vec4<f32>;\n'
    '@fragment fn fs() -> @location(0) vec4<f32> { if (flag) { return pc * gain; } return pc; }\n',
]
REAL_FMT_OPTS = [{'derive_encase_host_shareable': True}, {'derive_encase_host_shareable': True, 'derive_serde': True, 'derive_bytemuck_vertex': True, 'matrix_vector_types': 'Glam'}]


def native_real_formatter(ctx, seen):
    """the REAL rustfmt of this machine (when there is one): formatter on and off must give the same program.  That rustfmt preserves
    tokens in general is outside the claim; that the generator does not emit something rustfmt is known to rewrite (adjacent derive
    attributes are merged, ...) is checked here on a small corpus"""
    import shutil
    if shutil.which('rustfmt') is None:
        ctx.sample({'real rustfmt': 'not installed, skipped'})
        return
    for src in REAL_FMT_SRCS:
        for o in REAL_FMT_OPTS:
            r1 = ctx.S.oracle.gen(src, dict(o, rustfmt=True))
            r0 = ctx.S.oracle.gen(src, dict(o, rustfmt=False))
            if 'ok' in r0 and 'ok' in r1 and same_program(ctx, r1['ok'], r0['ok']):
                ctx.replayed_ok += 1
            elif 'ok' in r0 or 'ok' in r1:
                key = 'C19/real-rustfmt'
                if key not in seen:
                    seen[key] = 1
                    ctx.report(key, 'with the real rustfmt the formatted program is not the unformatted program', {'wgsl': src, 'options': dict(o, rustfmt=True)}, True)


def native_all(ctx, seen=None):
    """every fault scenario on the real build, below and above the pipe buffer: all must return the program"""
    seen = {} if seen is None else seen
    native_real_formatter(ctx, seen)
    for sc in FAKES:
        for big in ((False, True) if ctx.tier == 'thorough' or sc in ('exit0_without_reading', 'exit0_after_partial_read_with_output', 'killed', 'killed_after_partial_output', 'working') else (False,)) \
                + ((1, 2, 3) if sc in ('working', 'exit1_after_reading') else ()):
            r, r0 = native_run(ctx, sc, big)
            good = 'ok' in r and 'ok' in r0 and same_program(ctx, r['ok'], r0['ok'])
            ctx.sample({'scenario': sc, 'output_over_64KiB': big, 'returns_same_program': good})
            if good:
                ctx.replayed_ok += 1
            else:
                key = f'C19/{sc}'
                if key not in seen:
                    seen[key] = 1
                    ctx.report(key, f'native fault scenario "{sc}" (big={big}): {str(r)[:160]}', {'scenario': sc, 'fake_rustfmt': FAKES[sc]}, True)


if __name__ == '__main__':
    sys.exit(main('C19', run, native_all))
