"""C11  Group numbering contract: dense groups, unique slots, or a typed error.

Real code executed symbolically: get_bind_group_data (+ its closures) and the error propagation / success path of
create_shader_module_inner.  Symbolic: for k module-scope variables, whether each has a binding and its (@group, @binding)
pair - all of u32 x u32.  Oracle: the statement's predicate over the pairs.
"""
import z3
from harness.common import *
from harness.c03 import decode_visibility

ANCHORS = ['get_bind_group_data']


SPACE_DECL = {'Uniform': 'var<uniform> v{i}: vec4<f32>;', 'Storage': 'var<storage, read> v{i}: vec4<f32>;', 'Handle': 'var v{i}: texture_2d<f32>;'}
RENDER = {'spaces': None, 'terms': None}        # address space of each variable for the next rendering (set from a model, or at random)


def set_spaces(m):
    if RENDER['terms'] is not None:
        inv = RENDER['inv']
        RENDER['spaces'] = [inv[model_value(m, t)] for t in RENDER['terms']]


def template(k, vals=None):
    """k module-scope variables; even-numbered ones are read by the vertex entry point, odd-numbered ones by the fragment entry point
    (a slot is a slot whichever stages use its occupants)"""
    out, use = [], {0: [], 1: []}
    for i in range(k):
        sp = 'Uniform'
        if vals is None:
            out.append(f'@group(0) @binding({i}) var<uniform> v{i}: vec4<f32>;')
        else:
            p, g, b = vals[i]
            sp = (RENDER['spaces'] or [])[i] if RENDER['spaces'] and i < len(RENDER['spaces']) else 'Uniform'
            out.append(f'@group({g}u) @binding({b}u) ' + SPACE_DECL[sp].replace('{i}', str(i)) if p else f'var<private> v{i}: vec4<f32>;')
            if not p:
                sp = 'Uniform'
        use[i % 2].append(f'let t{i} = textureDimensions(v{i});' if sp == 'Handle' else f'let t{i} = v{i}.x;')
    if RENDER.get('entries', 'both') == 'none':
        # a module without any entry point (a library of declarations): the numbering contract does not depend on who uses a slot
        out.append('fn helper() -> f32 { ' + ' '.join(use[0] + use[1]) + ' return 0.0; }')
        return '\n'.join(out) + '\n'
    out.append('@vertex fn vmain() -> @builtin(position) vec4<f32> { ' + ' '.join(use[0]) + ' return vec4<f32>(0.0); }')
    out.append('@fragment fn main() { ' + ' '.join(use[1]) + ' }')
    return '\n'.join(out) + '\n'


def build(ctx, k):
    c = ctx.S.conv
    src = template(k)
    module = ctx.S.module(src)
    gvs = c.get(module, 'global_variables').fields[0].items
    holes = []
    AS = {v['name']: v['disc'] for v in ctx.S.schema['enums']['AddressSpace']}
    from mirsym.schema import mkflags
    RENDER['terms'], RENDER['inv'], RENDER['spaces'] = [], {AS[n]: n for n in SPACE_DECL}, None
    ctx.space_assume = []
    for i in range(k):
        # the address space of every variable is symbolic (uniform / storage / handle): a slot is a slot whatever lives in it
        sp = z3.BitVec(f'space{i}', 64)
        c.set(gvs[i], 'space', c.sym_enum('AddressSpace', sp, {'Storage': [mkflags('StorageAccess', 1)]}))
        RENDER['terms'].append(sp)
        ctx.space_assume.append(z3.Or([sp == AS[n] for n in SPACE_DECL]))
        p = z3.Bool(f'has_binding{i}')
        g = z3.BitVec(f'group{i}', 32)
        b = z3.BitVec(f'binding{i}', 32)
        disc = z3.If(p, z3.BitVecVal(1, 64), z3.BitVecVal(0, 64))
        rb = Agg('ResourceBinding', [g, b])
        c.set(gvs[i], 'binding', Agg('Option', {'Some': [rb], 'None': []}, disc=disc))
        holes.append((p, g, b))
    return src, module, holes


def expected(holes):
    """(dup_at[i] list, first-dup binding term, consecutive predicate)"""
    k = len(holes)
    dup = []
    for i, (p, g, b) in enumerate(holes):
        dup.append(z3.And(p, z3.Or([z3.And(holes[j][0], holes[j][1] == g, holes[j][2] == b) for j in range(i)])) if i else z3.BoolVal(False))
    any_dup = z3.Or(dup)
    first_b = z3.BitVecVal(0, 32)
    for i in reversed(range(k)):
        first_b = z3.If(dup[i], holes[i][2], first_b)
    dense = []
    for i, (p, g, b) in enumerate(holes):
        closed = [z3.Implies(z3.ULT(z3.BitVecVal(v, 32), g), z3.Or([z3.And(q, g2 == v) for q, g2, _ in holes])) for v in range(k)]
        dense.append(z3.Implies(p, z3.And(z3.ULT(g, k), *closed)))
    return dup, any_dup, first_b, z3.And(dense)


def first_time(ctx, key):
    """one replayed report per kind of failure is enough (a changed implementation can fail on thousands of paths)"""
    seen = ctx.extra.setdefault('violations_by_rule', {})
    seen[key] = seen.get(key, 0) + 1
    return seen[key] == 1


def check_result(ctx, label, holes, pc, kind, out, src_of):
    dup, any_dup, first_b, dense = expected(holes)
    k = len(holes)

    def rep_err(m, want):
        vals = [(model_value(m, p), model_value(m, g), model_value(m, b)) for p, g, b in holes]; set_spaces(m)
        src = src_of(vals)
        r = ctx.S.oracle.gen(src, {})
        return src, vals, r
    if kind == 'panic':
        m = ctx.witness(pc)
        src, vals, r = rep_err(m, None)
        ctx.report('C11/panic', f'generator panics ({out}) for pairs {vals}', {'wgsl': src}, 'panic' in r, r)
        return
    if out.disc == 1:
        e = out.fields[0]
        if e.variant == 'DuplicateBinding':
            bad = z3.Or(z3.Not(any_dup), e.fields[0] != first_b)
        elif e.variant == 'NonConsecutiveBindGroups':
            bad = z3.Or(any_dup, dense)
        else:
            bad = z3.BoolVal(True)
        m = ctx.check(pc, bad)
        if m is not None and first_time(ctx, f'C11/wrong-error/{e.variant}'):
            src, vals, r = rep_err(m, None)
            # expected verdict for these concrete pairs, by the statement
            exp = verdict(vals)
            got = r.get('err', {}) if 'err' in r else ('ok' if 'ok' in r else r)
            ctx.report(f'C11/wrong-error/{e.variant}', f'pairs {vals}: returned {got}, contract says {exp}', {'wgsl': src},
                       not same_verdict(got, exp), {'real': got, 'expected': exp})
        return
    # Ok(map): every declared binding exactly once, in its own group, with its own index; keys 0..n-1 ascending
    bt = out.fields[0]
    conds = [z3.Not(any_dup), dense]
    seen_names = {}
    for pos, (key, gd) in enumerate(bt.entries):
        conds.append(key == pos if not is_sym(key) else key == z3.BitVecVal(pos, 32))
        for gb in gd.fields[0].items:
            order = ctx.S.local_structs['GroupBinding']
            name = gb.fields[order.index('name')].fields[0]
            idx = gb.fields[order.index('binding_index')]
            i = int(name[1:])
            seen_names[i] = seen_names.get(i, 0) + 1
            conds.append(z3.And(holes[i][0], holes[i][1] == key, holes[i][2] == idx))
    for i, (p, g, b) in enumerate(holes):
        conds.append(p == z3.BoolVal(seen_names.get(i, 0) == 1))
        if seen_names.get(i, 0) > 1:
            conds.append(z3.BoolVal(False))
    m = ctx.check(pc, z3.Not(z3.And(conds)))
    if m is not None and first_time(ctx, 'C11/wrong-success'):
        src, vals, r = rep_err(m, None)
        exp = verdict(vals)
        got = r.get('err', {}) if 'err' in r else ('ok' if 'ok' in r else r)
        rep = not same_verdict(got, exp)
        if 'ok' in r and exp == 'ok':
            # both Ok: compare which variable landed in which group/binding
            rep = not layout_matches(ctx, r['ok'], vals)
        ctx.report('C11/wrong-success', f'pairs {vals}: returned Ok with a wrong grouping (contract: {exp})', {'wgsl': src}, rep, {'real': str(got)[:200], 'expected': exp})


def verdict(vals):
    seen = set()
    for p, g, b in vals:
        if p:
            if (g, b) in seen:
                return {'kind': 'DuplicateBinding', 'binding': b}
            seen.add((g, b))
    groups = sorted({g for p, g, b in vals if p})
    if groups != list(range(len(groups))):
        return {'kind': 'NonConsecutiveBindGroups'}
    return 'ok'


def same_verdict(got, exp):
    if exp == 'ok' or got == 'ok':
        return got == exp
    if not isinstance(got, dict):
        return False
    return got.get('kind') == exp['kind'] and got.get('binding') == exp.get('binding')


def layout_matches(ctx, text, vals):
    lx = ctx.S.oracle.lex(text)
    toks = T.from_json(lx['tokens'])
    its = T.items(toks)
    mod = T.find_items(its, 'mod', 'bind_groups')
    want = {}
    for i, (p, g, b) in enumerate(vals):
        if p:
            want.setdefault(g, []).append((f'v{i}', b))
    got = {}
    if mod:
        from harness.decoders import decode_bgl_entry
        inner = T.items(T.body_of(mod[0]))
        for st in T.find_items(inner, 'struct'):
            if st.name.startswith('BindGroupLayout'):
                n = int(st.name[len('BindGroupLayout'):])
                names = [f[0] for f in T.struct_fields(T.body_of(st))]
                cst = T.find_items(inner, 'const', f'LAYOUT_DESCRIPTOR{n}')[0]
                _, val = T.const_parts(cst)
                body = next(t for t in val if T.is_g(t, '{}'))
                f = dict((nm, v) for nm, _, v in T.struct_fields(body.v[1]))
                arr = next(t for t in f['entries'] if T.is_g(t, '[]'))
                es = [decode_bgl_entry(e)['binding'] for e in T.split_commas(arr.v[1])]
                got[n] = list(zip(names, es))
    return got == want


def run(ctx):
    quick = ctx.tier == 'quick'
    ks = [2, 3, 4] if quick else [2, 3, 4, 5]
    ctx.bounds = {'variables': ks, 'group / binding numbers': 'all of u32 x u32, presence of a binding symbolic'}
    ctx.assumptions += ['validation off (validator stubs are covered by C17)',
                        'address space of every variable symbolic over uniform / storage / handle (texture); the resource type itself is not looked at']
    for k in ks:
        src, module, holes = build(ctx, k)
        res = ctx.explore(f'get_bind_group_data/k={k}', lambda it: it.call('get_bind_group_data', [mkref(module)]), assume=ctx.space_assume, anchors=ANCHORS,
                          timeout_s=900)
        for pc, kind, out, _ in res:
            check_result(ctx, f'k={k}', holes, pc, kind, out, lambda vals: template(k, vals))
        oks = [r for r in res if r[1] == 'ok' and r[2].disc == 0]
        errs = [r for r in res if r[1] == 'ok' and r[2].disc == 1]
        if not oks or not errs:
            raise Inconclusive('vacuous: no Ok or no Err path')
        ctx.vacuity_witness(f'k={k} Ok path', oks[0][0])
        # translator validation: witnesses of some Ok and Err paths, replayed on the real build
        picks = (oks[:2] + errs[:4]) if quick else (oks[:6] + errs[:12])
        for pc, kind, out, _ in picks:
            m = ctx.witness(pc)
            vals = [(model_value(m, p), model_value(m, g), model_value(m, b)) for p, g, b in holes]; set_spaces(m)
            r = ctx.S.oracle.gen(template(k, vals), {})
            mine = 'ok' if out.disc == 0 else {'kind': out.fields[0].variant}
            if out.disc == 1 and out.fields[0].variant == 'DuplicateBinding':
                mine['binding'] = model_value(m, out.fields[0].fields[0]) if is_sym(out.fields[0].fields[0]) else out.fields[0].fields[0]
            got = 'ok' if 'ok' in r else r.get('err', r)
            if not same_verdict(got, mine):
                raise Inconclusive(f'translator disagrees with the implementation on pairs {vals}: real {got}, interpreter {mine}')
            ctx.replayed_ok += 1
            ctx.sample({'pairs(has_binding, group, binding)': vals, 'verdict': mine})
    for entries in ('both', 'none'):
        RENDER['entries'] = entries
        # end to end: Err is propagated unchanged, Ok produces one BindGroupN per group in order
        k = 2
        src, module, holes = build(ctx, k)
        env = env_passthrough(module, src)
        # validation off / on (symbolic): the validator stub accepts (real naga only reports a collision when one entry point uses both
        # variables; the template's variables are unused), so the contract must hold whichever way the crate gets its group data
        validate_on = z3.Bool(f'validate_is_some_{entries}')
        vo = Agg('Option', {'Some': [Agg('ValidationOptions', [Agg('Capabilities', [Agg('InternalBitFlags', [z3.BitVec('capabilities', 32)])])])], 'None': []},
                 disc=z3.If(validate_on, z3.BitVecVal(1, 64), z3.BitVecVal(0, 64)))
        res = ctx.explore(f'create_shader_module_inner/k=2/entry-points={entries}', lambda it: it.call('create_shader_module_inner', [src, none(), write_options(ctx.S.conv, validate=vo)]),
                          assume=ctx.space_assume, env=env, anchors=ANCHORS + ['create_shader_module_inner'])
        dup, any_dup, first_b, dense = expected(holes)
        for pc, kind, out, _ in res:
            if kind == 'panic':
                m = ctx.witness(pc)
                vals = [(model_value(m, p), model_value(m, g), model_value(m, b)) for p, g, b in holes]; set_spaces(m)
                r = ctx.S.oracle.gen(template(k, vals), {})
                ctx.report('C11/panic', f'generator panics ({out}) for pairs {vals}', {'wgsl': template(k, vals)}, 'panic' in r, r)
                continue
            if out.disc == 1:
                e = out.fields[0]
                bad = {'DuplicateBinding': z3.Or(z3.Not(any_dup), e.fields[0] != first_b) if e.variant == 'DuplicateBinding' else None,
                       'NonConsecutiveBindGroups': z3.Or(any_dup, dense)}.get(e.variant, z3.BoolVal(True))
            else:
                bad = z3.Or(any_dup, z3.Not(dense))
            m = ctx.check(pc, bad)
            if m is not None:
                vals = [(model_value(m, p), model_value(m, g), model_value(m, b)) for p, g, b in holes]; set_spaces(m)
                von = model_value(m, validate_on)
                r = ctx.S.oracle.gen(template(k, vals), {'validate': True} if von else {})
                got = 'ok' if 'ok' in r else r.get('err', r)
                ctx.report('C11/end-to-end', f'pairs {vals} (validate={von}, entry points: {entries}): create_shader_module returned {str(got)[:80]}, contract says {verdict(vals)}',
                           {'wgsl': template(k, vals), 'options': {'validate': von}}, not same_verdict(got, verdict(vals)))
    RENDER['entries'] = 'both'
    ctx.differential(template(3, [(True, 1, 7), (True, 0, 4000000000), (False, 0, 0)]), {})
    ctx.differential(template(3, [(True, 1, 7), (True, 1, 7), (True, 0, 0)]), {})
    ctx.differential(template(2, [(True, 2, 0), (True, 0, 0)]), {})


def native(ctx):
    n = 60 if ctx.tier == 'quick' else 600
    done = False
    for i in range(n):
        k = ctx.rng.choice([2, 3, 4, 5, 6])
        pool_g = [0, 1, 2, 3, 7, 2 ** 32 - 1]
        pool_b = [0, 1, 2, 5, 9, 2 ** 31, 2 ** 32 - 1]
        vals = [(ctx.rng.random() < 0.85, ctx.rng.choice(pool_g[:3] if ctx.rng.random() < 0.8 else pool_g), ctx.rng.choice(pool_b[:4] if ctx.rng.random() < 0.8 else pool_b))
                for _ in range(k)]
        RENDER['spaces'] = [ctx.rng.choice(list(SPACE_DECL)) for _ in range(k)]
        RENDER['entries'] = 'none' if i % 4 == 3 else 'both'
        src = template(k, vals)
        RENDER['entries'] = 'both'
        r = ctx.S.oracle.gen(src, {})
        got = 'ok' if 'ok' in r else r.get('err', r)
        exp = verdict(vals)
        bad = not same_verdict(got, exp) or ('ok' in r and not layout_matches(ctx, r['ok'], vals))
        if bad and not done:
            done = True
            ctx.report('C11/native', f'pairs {vals}: real build returns {str(got)[:100]}, contract says {exp}', {'wgsl': src}, True, {'real': str(got)[:200], 'expected': exp})
        elif not bad:
            ctx.replayed_ok += 1

if __name__ == '__main__':
    sys.exit(main('C11', run, native))
