"""C10  encase + glam structs serialise every field at its WGSL offset.   (claimed with a model of encase)

Three obligations:
 (1) mirsym, real code (structs / rust_struct / struct_members / rust_type, Glam + encase): a member of WGSL type t gets
     a Rust type whose ENCASE CLASS (scalar / vecN / matCxC / array / struct / runtime array) is t's class, for every t
     glam+encase can represent; host-shareable structs derive encase::ShaderType; a trailing runtime array carries
     #[size(runtime)].
 (2) z3: layout_encase(class tree) = layout_wgsl(class tree) for every struct of <= 4 members drawn symbolically from the
     representable leaf set / fixed arrays / a nested struct, with optional explicit @size/@align on members.  layout_encase is
     a transcription of encase 0.10 (derive: offsets[i] = align_i.round_up(offset); vectors: alignment = next power of two of the
     size; matrices: columns of padded vectors; arrays: stride = align.round_up(size)); layout_wgsl is the WGSL AlignOf/SizeOf table.
 (3) native validation of both transcriptions: the structs the REAL generator emits for a corpus are compiled against the
     REAL encase + glam, probe values are written through StorageBuffer, and every component must sit where naga's layout
     (offsets, strides, span) says.
f64 members are outside: encase implements ShaderType only for f32/u32/i32 based types (a DVec member does not compile).
"""
import os
import re
import struct as pystruct
import subprocess
import z3
from harness.common import *
from harness.structs_common import *
from harness import c06 as C06

CORPUS = '''struct Inner { a: f32, b: vec3<f32> }
struct S1 { a: vec3<f32>, b: f32, c: vec3<f32>, d: vec2<f32>, e: f32 }
struct S2 { a: f32, b: vec2<u32>, c: vec4<i32>, d: u32, e: vec3<i32>, f: vec3<u32>, g: vec2<i32>, h: vec4<u32> }
struct S3 { m2: mat2x2<f32>, x: f32, m3: mat3x3<f32>, y: f32, m4: mat4x4<f32>, z: vec2<f32> }
struct S4 { arr: array<vec3<f32>, 3>, s: f32, arr2: array<f32, 5>, arr3: array<mat3x3<f32>, 2>, arr4: array<vec2<f32>, 3> }
struct S5 { a: f32, inner: Inner, b: f32, inners: array<Inner, 2>, c: u32 }
struct S7 { n: u32, data: array<vec3<f32>> }
struct S8 { hdr: Inner, data: array<Inner> }
struct S9 { n: atomic<u32>, v: vec2<f32>, w: array<array<f32, 2>, 3>, x: array<array<vec3<f32>, 2>, 3>, y: f32, z: array<array<mat2x2<f32>, 2>, 2> }
struct S10 { m: mat3x3<f32>, data: array<mat2x2<f32>> }
@group(0) @binding(0) var<storage, read_write> s1: S1;
@group(0) @binding(1) var<storage, read_write> s2: S2;
@group(0) @binding(2) var<storage, read_write> s3: S3;
@group(0) @binding(3) var<storage, read_write> s4: S4;
@group(0) @binding(4) var<storage, read_write> s5: S5;
@group(0) @binding(6) var<storage, read_write> s7: S7;
@group(0) @binding(7) var<storage, read_write> s8: S8;
@group(0) @binding(8) var<storage, read_write> s9: S9;
@group(0) @binding(9) var<storage, read_write> s10: S10;
@compute @workgroup_size(1) fn main() {}
'''
CORPUS_EXPLICIT = '''struct S6 { @size(32) a: f32, @align(32) b: f32, c: vec2<f32> }
@group(0) @binding(0) var<storage, read_write> s6: S6;
@compute @workgroup_size(1) fn main() {}
'''
OPTS = {'derive_encase_host_shareable': True, 'matrix_vector_types': 'Glam'}
KNOWN_KEY = 'C10/explicit-size-align'


# ------------------------------------------------------------------------------------------------ (3) native encase
def rust_ctor(sem, tytext, k_rt):
    """Rust expression building a probe value of the decoded type; c is `&mut u32` counter"""
    if 'struct' in sem:
        return f'make_{sem["struct"]}(c)'
    if 'rt' in sem:
        return 'vec![' + ', '.join(rust_ctor(sem['rt'], None, k_rt) for _ in range(k_rt)) + ']'
    if 'array' in sem:
        return '[' + ', '.join(rust_ctor(sem['elem'], None, k_rt) for _ in range(sem['array'])) + ']'
    nx = {'Float': 'nf(c)', 'Uint': 'nu(c)', 'Sint': 'ni(c)'}[sem['kind']]
    if sem['repr'] == 'scalar':
        return nx
    if sem['repr'] == 'array':
        inner = dict(sem, dims=sem['dims'][1:], repr='array' if len(sem['dims']) > 1 else 'scalar')
        return '[' + ', '.join(rust_ctor(inner, None, k_rt) for _ in range(sem['dims'][0])) + ']'
    if sem['repr'] == 'glam' and sem['leaf'] == 1:
        pre = {'Float': '', 'Uint': 'U', 'Sint': 'I'}[sem['kind']]
        n = sem['dims'][0]
        return f'glam::{pre}Vec{n}::new(' + ', '.join(nx for _ in range(n)) + ')'
    if sem['repr'] == 'glam' and sem['leaf'] == 2:
        n = sem['dims'][0]
        return f'glam::Mat{n}::from_cols_array(&[' + ', '.join('nf(c)' for _ in range(n * n)) + '])'
    raise Inconclusive(f'no probe constructor for {sem}')


def expected_image(mj, layouts, th, k_rt):
    """(positions [(offset, kind)], total length) in DFS order, from naga's layout numbers"""
    types = mj['types']
    pos = []

    def align_of(h):
        return layouts[h]['alignment']

    def walk(h, base):
        inner = types[h]['inner']
        if 'Scalar' in inner or 'Atomic' in inner:
            sc = inner.get('Scalar') or inner['Atomic']
            pos.append((base, sc['kind']))
            return base + sc['width']
        if 'Vector' in inner:
            n = {'Bi': 2, 'Tri': 3, 'Quad': 4}[inner['Vector']['size']]
            w = inner['Vector']['scalar']['width']
            for i in range(n):
                pos.append((base + i * w, inner['Vector']['scalar']['kind']))
            return base + n * w
        if 'Matrix' in inner:
            cdim = {'Bi': 2, 'Tri': 3, 'Quad': 4}[inner['Matrix']['columns']]
            r = {'Bi': 2, 'Tri': 3, 'Quad': 4}[inner['Matrix']['rows']]
            w = inner['Matrix']['scalar']['width']
            stride = {2: 2, 3: 4, 4: 4}[r] * w
            for ci in range(cdim):
                for ri in range(r):
                    pos.append((base + ci * stride + ri * w, 'Float'))
            return base + cdim * stride
        if 'Array' in inner:
            a = inner['Array']
            n = a['size']['Constant'] if isinstance(a['size'], dict) else k_rt
            for i in range(n):
                walk(a['base'], base + i * a['stride'])
            if not isinstance(a['size'], dict):
                n = max(n, 1)         # a runtime-sized array binding holds at least one element (WGSL minimum binding size; encase pads)
            return base + n * a['stride']
        if 'Struct' in inner:
            end = base
            for mb in inner['Struct']['members']:
                end = walk(mb['ty'], base + mb['offset'])
            last = inner['Struct']['members'][-1]
            lt = types[last['ty']]['inner']
            if 'Array' in lt and lt['Array']['size'] == 'Dynamic':
                al = align_of(h)
                return base + ((end - base + al - 1) // al) * al
            return base + inner['Struct']['span']
        raise Inconclusive(f'layout of {inner}')
    end = walk(th, 0)
    return pos, end


DUAL_T = '''struct Inst { @location(%du) scale: f32, @location(%du) color: vec4<f32>, @location(%du) dir: vec3<f32>, @location(%du) uv: vec2<u32>, @location(%du) w: vec4<i32> }
struct Wrap { n: u32, insts: array<Inst, 2> }
@group(0) @binding(0) var<uniform> one: Inst;
@group(0) @binding(1) var<storage, read> many: Wrap;
@vertex fn vs(i: Inst) -> @builtin(position) vec4<f32> { return i.color; }
@fragment fn fs() -> @location(0) vec4<f32> { return one.color; }
'''
DUAL_MEMBERS = ['scale', 'color', 'dir', 'uv', 'w']


def dual_src(locs=(0, 1, 2, 3, 4)):
    return DUAL_T % tuple(locs)


DUAL = dual_src()
DUAL_SHUFFLED = dual_src((3, 0, 4, 1, 2))


def dual_role_check(ctx, seen):
    """a struct that is a vertex input AND host-shareable, under every combination of the other switches (Glam + encase fixed);
    the @location numbers of its members are symbolic (all of u32, pairwise distinct): encase lays fields out in Rust order, so the
    emitted fields must stay in WGSL declaration order whatever the locations are"""
    S, c = ctx.S, ctx.S.conv
    d = S.dump(DUAL)
    module = c.module(d)
    types = c.get(module, 'types').fields[0].items
    hi = type_handles(d['module'])['Inst']
    locs = []
    for mb, mname in zip(c.get(types[hi], 'inner').fields[0].items, DUAL_MEMBERS):
        l = z3.BitVec(f'Inst_{mname}_location', 32)
        c.get(mb, 'binding').fields[0].fields[0] = l
        locs.append(l)
    o = {k: z3.Bool(k) for k in ('derive_bytemuck_vertex', 'derive_bytemuck_host_shareable', 'derive_serde')}
    res = ctx.explore('structs/glam+encase/vertex-and-host struct x other switches x symbolic locations',
                      lambda it: it.call('structs', [mkref(module), write_options(S.conv, matrix_vector_types='Glam', derive_encase_host_shareable=True, **o)]),
                      assume=[z3.Distinct(*locs)], anchors=['structs', 'rust_struct', 'rust_type'])
    want = {'scale': ('scalar', 'Float', []), 'color': ('glam', 'Float', [4]), 'dir': ('glam', 'Float', [3]), 'uv': ('glam', 'Uint', [2]), 'w': ('glam', 'Sint', [4])}
    for pc, kind, out, _ in res:
        ctx.queries['discharged'] += 1
        m = ctx.witness(pc)
        opts = {k: model_value(m, v) for k, v in o.items()}
        lv = [model_value(m, l) for l in locs]
        if kind == 'panic':
            ctx.queries['unsat'] += 1
            continue
        sts, order = decode_structs(out.toks)
        inst = sts.get('Inst')
        bad = None
        if inst is None or 'encase::ShaderType' not in inst['derives']:
            bad = 'Inst does not derive encase::ShaderType'
        elif [f[0] for f in inst['fields']] != DUAL_MEMBERS:
            bad = f'Inst fields are emitted as {[f[0] for f in inst["fields"]]}, not in WGSL declaration order {DUAL_MEMBERS} (locations {lv})'
        else:
            for f in inst['fields']:
                sem = decode_type(f[2])
                r, k, dims = want[f[0]]
                if not (sem.get('repr') == r and sem.get('kind') == k and sem.get('dims') == dims and sem.get('width') == 4):
                    bad = f'member {f[0]} is emitted as `{T.text(f[2])}`, whose encase class is not that of its WGSL type'
                    break
        if bad is None:
            ctx.queries['unsat'] += 1
            continue
        ctx.queries['sat'] += 1
        key = 'C10/dual-role struct'
        seen[key] = seen.get(key, 0) + 1
        if seen[key] > 1:
            continue
        wsrc = dual_src(lv)
        bad_n, n = native_encase(ctx, wsrc, ['Inst', 'Wrap'], 'dual', dict(OPTS, **opts))
        ctx.report(key, f'{bad} with options {opts}', {'wgsl': wsrc, 'options': dict(OPTS, **opts), 'encase': bad_n}, bool(bad_n), bad_n)
    return res


def native_encase(ctx, src, names, label, opts=None):
    """compile the REAL generator's structs against real encase+glam, write probes, compare with naga's layout"""
    S = ctx.S
    kind, toks, text_ = ctx.gen_tokens(src, opts or OPTS)
    if kind != 'ok':
        if label == 'corpus':
            raise Inconclusive(f'corpus does not generate: {kind} {toks}')
        return [], 0
    sts, order = decode_structs(toks)
    d = S.dump(src)
    mj, layouts = d['module'], d['layouts']
    th = {t['name']: i for i, t in enumerate(mj['types']) if t['name']}
    out = ['use encase::ShaderType;']
    # struct items re-rendered from the generator's own tokens
    for it in T.items(toks):
        if it.kind == 'struct' and it.name in sts and it.name in th:
            txt = T.text(it.toks).replace("' ", "'")
            # only encase is linked into the helper crate: other derives are irrelevant to the byte image
            for dn in ('bytemuck :: Pod', 'bytemuck :: Zeroable', 'serde :: Serialize', 'serde :: Deserialize'):
                txt = txt.replace(dn + ' ,', '').replace(', ' + dn, '').replace(dn, '')
            out.append(txt)
    out.append('fn nf(c: &mut u32) -> f32 { *c += 1; *c as f32 }\nfn nu(c: &mut u32) -> u32 { *c += 1; *c }\nfn ni(c: &mut u32) -> i32 { *c += 1; -(*c as i32) }')
    ks = {}
    unknown = []
    for name in order:
        for f in sts[name]['fields'] if name in th else []:
            try:
                decode_type(f[2])
            except UnknownType as e:
                unknown.append(f'{name}.{f[0]}: {e}')
    if unknown:
        # a member type outside the decoder's (= encase's) list: values cannot be constructed here, but the derive alone decides -
        # encase's derive requires ShaderType of every field, so the struct items are compiled as they are
        order, names = [], []
    for name in order:
        if name not in th:
            continue
        st = sts[name]
        has_rt = any('rt' in decode_type(f[2]) for f in st['fields'])
        ks[name] = [0, 1, 3] if has_rt else [0]
        for k in ks[name]:
            fields = ', '.join(f'{f[0]}: {rust_ctor(decode_type(f[2]), None, k)}' for f in st['fields'])
            suffix = f'_{k}' if has_rt else ''
            out.append(f'fn make_{name}{suffix}(c: &mut u32) -> {name} {{ {name} {{ {fields} }} }}')
        if has_rt:
            out.append(f'fn make_{name}(c: &mut u32) -> {name} {{ make_{name}_1(c) }}')
    runs = []
    for name in names:
        for k in ks[name]:
            fn = f'make_{name}_{k}' if len(ks[name]) > 1 else f'make_{name}'
            runs.append(f'{{ let mut c = 0u32; let v = {fn}(&mut c); let mut b = encase::StorageBuffer::new(Vec::<u8>::new()); b.write(&v).unwrap(); '
                        f'out.push(("{name}:{k}".to_string(), b.into_inner())); }}')
    out.append('pub fn run() -> Vec<(String, Vec<u8>)> { let mut out = Vec::new(); ' + ' '.join(runs) + ' out }')
    # work on a private copy of the helper crate so that the committed tree is never touched
    import shutil
    crate = os.path.join(VERIF, '.cache', f'encase_oracle_work_{os.getpid()}')
    shutil.rmtree(crate, ignore_errors=True)
    shutil.copytree(os.path.join(VERIF, 'encase_oracle'), crate)
    open(os.path.join(crate, 'src', 'generated.rs'), 'w').write('\n'.join(out) + '\n')
    env = dict(os.environ, CARGO_NET_OFFLINE='true', CARGO_TARGET_DIR=os.path.join(VERIF, '.cache', 'encase-target'))
    try:
        p = subprocess.run(['cargo', 'run', '--offline', '-q'], cwd=crate, env=env, capture_output=True, text=True, timeout=1200)
    finally:
        shutil.rmtree(crate, ignore_errors=True)
    if p.returncode != 0:
        return [{'struct': label, 'problem': 'generated structs do not compile / run against encase + glam' + (f' (member types {unknown})' if unknown else ''),
                 'stderr': p.stderr[-1500:]}], 0
    if unknown:
        raise Inconclusive(f'member types {unknown} are unknown to the decoder but compile against encase: extend decode_type / rust_ctor')
    bad, n = [], 0
    for line in p.stdout.split():
        pass
    for line in p.stdout.strip().split('\n'):
        key, hx = line.split(' ') if ' ' in line else (line, '')
        name, k = key.split(':')
        data = bytes.fromhex(hx)
        pos, total = expected_image(mj, layouts, th[name], int(k))
        n += 1
        probs = []
        if len(data) != total:
            probs.append(f'byte image is {len(data)} bytes, WGSL size is {total}')
        for i, (off, kd) in enumerate(pos):
            v = i + 1
            want = {'Float': pystruct.pack('<f', float(v)), 'Uint': pystruct.pack('<I', v), 'Sint': pystruct.pack('<i', -v)}[kd]
            if data[off:off + 4] != want:
                found = data.find(want)
                probs.append(f'component #{v} expected at byte {off}, found at {found}')
                break
        if probs:
            bad.append({'struct': name, 'runtime_elements': int(k), 'problem': '; '.join(probs)})
    return bad, n


# ------------------------------------------------------------------------------------------------ (2) z3 layout lemma
def round_up(a, x):
    return z3.UDiv(x + a - 1, a) * a


LEAVES = ['f32', 'vec2', 'vec3', 'vec4', 'mat2', 'mat3', 'mat4']          # 4-byte scalars (f32/i32/u32 share the layout)


def wgsl_leaf(k):
    """WGSL spec table: (align, size)"""
    return {'f32': (4, 4), 'vec2': (8, 8), 'vec3': (16, 12), 'vec4': (16, 16), 'mat2': (8, 16), 'mat3': (16, 48), 'mat4': (16, 64)}[k]


def encase_leaf(k):
    """encase 0.10: vector alignment = next_power_of_two(N * 4), size N*4; matrix = C columns of vecR padded to their alignment"""
    def npo2(x):
        p = 1
        while p < x:
            p *= 2
        return p
    if k == 'f32':
        return (4, 4)
    if k.startswith('vec'):
        n = int(k[3])
        return (npo2(4 * n), 4 * n)
    n = int(k[3])
    al = npo2(4 * n)
    stride = ((4 * n + al - 1) // al) * al
    return (al, n * stride)


def layout_lemma(ctx, n_members):
    """symbolic struct of n members; member i = leaf | array<leaf, len 1..4> | nested struct {leaf, leaf}; optional explicit
    @align (power of two >= natural) / @size (>= natural) on the WGSL side.  Returns (model or None for the plain case, model or None
    for the explicit-attribute case)"""
    bw = 32
    V = lambda n: z3.BitVec(n, bw)
    K = lambda v: z3.BitVecVal(v, bw)

    def leaf_table(sel, table):
        al, sz = K(table(LEAVES[-1])[0]), K(table(LEAVES[-1])[1])
        for i in reversed(range(len(LEAVES) - 1)):
            a, s = table(LEAVES[i])
            al = z3.If(sel == i, K(a), al)
            sz = z3.If(sel == i, K(s), sz)
        return al, sz
    cons = []
    w_off, e_off = K(0), K(0)
    w_al_max, e_al_max = K(1), K(1)
    w_offs, e_offs = [], []
    explicit_any = z3.BoolVal(False)
    for i in range(n_members):
        shape = V(f'm{i}_shape')            # 0 leaf, 1 array of leaf, 2 nested struct of two leaves
        l1, l2, ln = V(f'm{i}_leaf'), V(f'm{i}_leaf2'), V(f'm{i}_len')
        cons += [z3.ULT(shape, 3), z3.ULT(l1, len(LEAVES)), z3.ULT(l2, len(LEAVES)), z3.UGE(ln, 1), z3.ULE(ln, 4)]
        res = {}
        for side, table in (('w', wgsl_leaf), ('e', encase_leaf)):
            a1, s1 = leaf_table(l1, table)
            a2, s2 = leaf_table(l2, table)
            arr_al, arr_sz = a1, ln * round_up(a1, s1)
            st_al = z3.If(z3.UGT(a1, a2), a1, a2)
            st_sz = round_up(st_al, round_up(a2, s1) + s2)
            al = z3.If(shape == 0, a1, z3.If(shape == 1, arr_al, st_al))
            sz = z3.If(shape == 0, s1, z3.If(shape == 1, arr_sz, st_sz))
            res[side] = (al, sz)
        # explicit attributes exist only in the WGSL text; the generator cannot emit them (naga keeps offsets only)
        ea, es = V(f'm{i}_explicit_align_log2'), V(f'm{i}_explicit_size_extra')
        has_a, has_s = z3.Bool(f'm{i}_has_align'), z3.Bool(f'm{i}_has_size')
        cons += [z3.ULE(ea, 6), z3.ULE(es, 64), es % 4 == 0]
        w_al, w_sz = res['w']
        xa = K(1) << ea
        w_al = z3.If(z3.And(has_a, z3.UGT(xa, w_al)), xa, w_al)
        w_sz = z3.If(has_s, w_sz + es, w_sz)
        explicit_any = z3.Or(explicit_any, z3.And(has_a, z3.UGT(xa, res['w'][0])), z3.And(has_s, es != 0))
        w_off = round_up(w_al, w_off)
        e_off = round_up(res['e'][0], e_off)
        w_offs.append(w_off)
        e_offs.append(e_off)
        w_off, e_off = w_off + w_sz, e_off + res['e'][1]
        w_al_max = z3.If(z3.UGT(w_al, w_al_max), w_al, w_al_max)
        e_al_max = z3.If(z3.UGT(res['e'][0], e_al_max), res['e'][0], e_al_max)
    w_size, e_size = round_up(w_al_max, w_off), round_up(e_al_max, e_off)
    differ = z3.Or([a != b for a, b in zip(w_offs, e_offs)] + [w_size != e_size])
    plain = ctx.check(cons + [z3.Not(explicit_any)], differ)
    expl = ctx.check(cons + [explicit_any], differ)
    return plain, expl


def run(ctx):
    S, c = ctx.S, ctx.S.conv
    quick = ctx.tier == 'quick'
    ctx.assumptions += ['encase implements ShaderType for f32/u32/i32, glam Vec/UVec/IVec 2-4 and Mat2/3/4 only: f64-based members do not compile and are outside',
                        'layout_encase is a transcription of encase 0.10 (derive + types/{vector,matrix,array}.rs), layout_wgsl of the WGSL AlignOf/SizeOf table; '
                        'both are validated natively (3) against real encase and naga on a corpus every run',
                        'naga\'s offsets / strides / spans are the WGSL layout (front end, trusted)']
    ctx.bounds = {'obligation 1': 'member types symbolic as in C06 (one per run), representation fixed to Glam, encase on; bytemuck vertex / host-shareable and serde switches symbolic in the leaf-type run',
                  'obligation 2': f'structs of up to {3 if quick else 4} members: leaf in {LEAVES} (4-byte scalars) | array<leaf, 1..4> | nested struct of two leaves; optional explicit @align 2^0..2^6, @size +0..64',
                  'obligation 3': 'corpus of 10 structs incl. vec3+scalar packing, arrays of vec3 / mat3x3 / structs, nested structs, atomics, runtime arrays of 0, 1, 3 elements'}
    seen = {}
    # ---------------------------------------------------------------- (1) encase class of emitted member types (real code, symbolic types)
    src = C06.render()
    d = S.dump(src)
    mj = d['module']
    named = type_handles(mj)
    hf32 = C06.find_type(mj, lambda t: t['inner'].get('Scalar') == {'kind': 'Float', 'width': 4})
    hh = {k: C06.find_type(mj, lambda t, k=k: t['inner'].get('Vector') == {'scalar': {'kind': 'Uint', 'width': 4}, 'size': {'HA': 'Bi', 'HB': 'Tri', 'HC': 'Quad'}[k]})
          for k in C06.PLACE}
    HA = TypeHole(ctx, 'HA')
    f32sem = {'kind': 'Float', 'width': 4, 'dims': [], 'leaf': 0, 'repr': 'scalar'}
    HB = TypeHole(ctx, 'HB', array_bases=[(hh['HA'], HA, lambda m: HA.wgsl(m)), (named['Inner'], {'struct': 'Inner'}, 'Inner'), (hf32, f32sem, 'f32')])
    HC = TypeHole(ctx, 'HC', array_bases=[(hh['HA'], HA, lambda m: HA.wgsl(m)), (named['Inner'], {'struct': 'Inner'}, 'Inner'), (hf32, f32sem, 'f32'),
                                          (hh['HB'], HB, lambda m: HB.wgsl(m))], allow_dynamic=True)
    holes = {'HA': HA, 'HB': HB, 'HC': HC}

    def representable(h):
        """what glam + encase can represent: 4-byte numeric scalars, their vectors, square f32 matrices, atomics"""
        four = z3.And(h.width == 4, z3.Or(h.kind == h.SK['Float'], h.kind == h.SK['Sint'], h.kind == h.SK['Uint']))
        return z3.And(four, z3.Implies(h.tdisc == h.TI['Matrix'], z3.And(h.cols == h.rows, h.kind == h.SK['Float'])))

    def class_ok(h, sem, bm=None):
        """decoded Rust type has the encase class of the WGSL type (on top of C06's element-type equality)"""
        B = z3.BoolVal
        if 'struct' in sem or 'rt' in sem:
            return B(False)
        if 'array' in sem:
            return z3.And(h.tdisc == h.TI['Array'], z3.Not(h.adyn), bm(h.base, sem['elem']) if bm else B(False), h.matches(sem, base_match=bm))
        r = sem.get('repr')
        leaf_cls = z3.And(z3.Implies(z3.Or(h.tdisc == h.TI['Scalar'], h.tdisc == h.TI['Atomic']), B(r == 'scalar')),
                          z3.Implies(z3.Or(h.tdisc == h.TI['Vector'], h.tdisc == h.TI['Matrix']), B(r == 'glam')),
                          z3.Implies(h.tdisc == h.TI['Array'], B(r == 'array')))
        return z3.And(leaf_cls, h.matches(sem, base_match=bm))

    def dt(tokens):
        """decoded member type; a type the decoder does not know has no encase class (class_ok is false for it, the witness is replayed)"""
        try:
            return decode_type(tokens)
        except Exception as e:
            if type(e).__name__ != 'UnknownType':
                raise
            return {'struct': '?unknown type ' + T.text(tokens)}

    def bm_for(hole):
        def bm(base_term, sem):
            alts = []
            for hnd, what, _ in hole.bases:
                if isinstance(what, TypeHole):
                    alts.append(z3.And(base_term == hnd, class_ok(what, sem, bm_for(what) if what.bases else None)))
                elif 'struct' in what:
                    alts.append(z3.And(base_term == hnd, z3.BoolVal(sem == what)))
                else:
                    alts.append(z3.And(base_term == hnd, z3.BoolVal(sem.get('repr') == 'scalar' and sem.get('kind') == 'Float' and sem.get('width') == 4)))
            return z3.Or(alts)
        return bm
    plans = [('HA',), ('HB',), ('HC',)]
    for plan in plans:
        module = c.module(S.dump(src))
        c.set(c.get(c.get(module, 'types').fields[0].items[named['Host']], 'inner').fields[0].items[0], 'name', some(C06.NAME0))   # abstract member name
        for k, h in holes.items():
            set_inner(ctx, module, hh[k], h.inner(ctx))
        assume = []
        for k, h in holes.items():
            assume += h.assumption()
            assume.append(representable(h))
            assume.append(z3.ULE(h.alen, 4))          # witnesses are instantiated and written through real encase: keep arrays small
            if k not in plan:
                # not symbolic in this run: HA is a vec3<f32>, HB an array of HA (so HC can be an array of arrays of vectors)
                if k == 'HB':
                    assume += [h.tdisc == h.TI['Array'], h.base == hh['HA'], h.alen == 2, z3.Not(h.adyn)]
                else:
                    assume += [h.tdisc == h.TI['Vector'], h.vsize == 3, h.kind == h.SK['Float'], h.width == 4]
        # the other derive switches are symbolic where the leaf type is (plan HA): the encase class of a member must not depend on them
        sw = {k_: (z3.Bool(k_) if plan == ('HA',) else False) for k_ in ('derive_bytemuck_vertex', 'derive_bytemuck_host_shareable', 'derive_serde')}
        res = ctx.explore(f'structs/glam+encase/symbolic-{"+".join(plan)}',
                          lambda it: it.call('structs', [mkref(module), write_options(S.conv, matrix_vector_types='Glam', derive_encase_host_shareable=True, **sw)]),
                          assume=assume, anchors=['structs', 'rust_struct', 'struct_members', 'rust_type'], timeout_s=3000)
        for pc, kind, out, _ in res:
            if kind == 'panic':
                continue              # refusals (e.g. runtime array of a runtime array) are not emitted structs
            sts, order = decode_structs(out.toks)
            host = sts.get('Host')
            conds = [('Host derives encase::ShaderType', z3.BoolVal(host is not None and 'encase::ShaderType' in host['derives'])),
                     ('Inner derives encase::ShaderType', z3.BoolVal('Inner' in sts and 'encase::ShaderType' in sts['Inner']['derives']))]
            if host:
                fd = {f[0]: f for f in host['fields']}
                decl = [C06.NAME0] + [mb['name'] for mb in mj['types'][named['Host']]['inner']['Struct']['members']][1:]
                conds.append(('Host fields are emitted in WGSL declaration order', z3.BoolVal([f[0] for f in host['fields']] == decl)))
                if not all(k_ in fd for k_ in (C06.NAME0, 'm1', 'tail')):
                    m = ctx.check(pc, z3.BoolVal(True))
                    key = 'C10/Host member missing'
                    seen[key] = seen.get(key, 0) + 1
                    if m is not None and seen[key] == 1:
                        spell = {k: h.wgsl(m) for k, h in holes.items()}
                        name0 = concrete_name(m, C06.NAME0, 'm0')
                        rep, det = False, {'members': spell}
                        if all(spell.values()):
                            wsrc = C06.render(spell, '', name0)
                            bad, n = native_encase(ctx, wsrc, ['Host'], 'witness')
                            k2, t2, _ = ctx.gen_tokens(wsrc, OPTS)
                            real_fields = [f[0] for f in decode_structs(t2)[0].get('Host', {'fields': []})['fields']] if k2 == 'ok' else None
                            rep = bool(bad) or (real_fields is not None and name0 not in real_fields)
                            det = {'wgsl': wsrc, 'options': OPTS, 'real_fields_of_Host': real_fields, 'encase': bad}
                        ctx.report(key, f'Host is emitted with fields {list(fd)}: a member named {name0!r} is dropped', det, rep, det)
                    continue
                conds.append(('member m0 has the encase class of its WGSL type', class_ok(HA, dt(fd[C06.NAME0][2]))))
                conds.append(('member m1 has the encase class of its WGSL type', class_ok(HB, dt(fd['m1'][2]), bm_for(HB))))
                sem = dt(fd['tail'][2])
                is_rt = z3.And(HC.tdisc == HC.TI['Array'], HC.adyn)
                if 'rt' in sem:
                    conds.append(('trailing runtime array is a Vec marked #[size(runtime)] of the element class',
                                  z3.And(is_rt, z3.BoolVal(fd['tail'][1] == ['size (runtime)']), bm_for(HC)(HC.base, sem['rt']))))
                else:
                    conds.append(('member tail has the encase class of its WGSL type', z3.And(z3.Not(is_rt), class_ok(HC, sem, bm_for(HC)))))
            m = ctx.check(pc, z3.Or([z3.Not(c_) for _, c_ in conds]))
            if m is None:
                continue
            failed = [n for n, c_ in conds if not z3.is_true(m.eval(c_, model_completion=True))]
            key = 'C10/' + failed[0]
            seen[key] = seen.get(key, 0) + 1
            if seen[key] > 1:
                continue
            spell = {k: h.wgsl(m) for k, h in holes.items()}
            wopts = dict(OPTS, **{k_: bool(model_value(m, v_)) for k_, v_ in sw.items() if is_sym(v_)})
            rep, det = False, {'members': spell, 'options': wopts}
            if all(spell.values()):
                wsrc = C06.render(spell, '', concrete_name(m, C06.NAME0, 'm0'))
                bad, n = native_encase(ctx, wsrc, ['Host'], 'witness', wopts)
                rep, det = bool(bad), {'wgsl': wsrc, 'options': wopts, 'encase': bad}
            ctx.report(key, f'{failed[0]}: member types {spell}', det, rep, det)
        oks = [r for r in res if r[1] == 'ok']
        ctx.vacuity_witness('encase class assertions reachable', oks[0][0])
    dual_role_check(ctx, seen)
    def lemma_and_native():
        # ---------------------------------------------------------------- (2) layout lemma in z3
        for n in ([2, 3] if quick else [2, 3, 4]):
            plain, expl = layout_lemma(ctx, n)
            if plain is not None:
                ctx.report('C10/layout-lemma', f'encase and WGSL layouts differ for a struct of {n} representable members without explicit attributes: {str(plain)[:300]}', {}, False)
            if expl is not None:
                seen[KNOWN_KEY] = seen.get(KNOWN_KEY, 0) + 1
                if seen[KNOWN_KEY] == 1:
                    bad, cnt = native_encase(ctx, CORPUS_EXPLICIT, ['S6'], 'explicit')
                    ctx.report(KNOWN_KEY, f'explicit @size/@align is lost: {bad}', {'wgsl': CORPUS_EXPLICIT, 'encase': bad}, bool(bad), bad)
        ctx.extra['layout_lemma'] = 'unsat (layouts agree) for every struct shape in the bound without explicit attributes; sat with explicit @size/@align (known finding)'
        # ---------------------------------------------------------------- (3) native corpus through real encase + glam
        names = ['S1', 'S2', 'S3', 'S4', 'S5', 'S7', 'S8', 'S9', 'S10']
        for extra, dsrc in (({'derive_bytemuck_vertex': True}, DUAL), ({'derive_bytemuck_vertex': True, 'derive_serde': True}, DUAL_SHUFFLED)):
            bad2, n2 = native_encase(ctx, dsrc, ['Inst', 'Wrap'], 'dual', dict(OPTS, **extra))
            if bad2:
                ctx.report('C10/native-dual-role', f'byte image differs from the WGSL layout with options {extra}: {bad2[0]}', {'wgsl': dsrc, 'options': dict(OPTS, **extra), 'encase': bad2}, True, bad2)
            else:
                ctx.replayed_ok += n2
        bad, n = native_encase(ctx, CORPUS, names, 'corpus')
        ctx.sample({'structs written through real encase + glam and compared with naga layout': n, 'mismatches': bad})
        if bad:
            ctx.report('C10/native', f'byte image differs from the WGSL layout: {bad[0]}', {'wgsl': CORPUS, 'encase': bad}, True, bad)
        else:
            ctx.replayed_ok += n
    ctx.section('layout lemma and native corpus', lemma_and_native)
    ctx.extra['violations_by_rule'] = seen
    # the field-level contract encase's derive works from (member order, names, element types, selected representation, no stray field
    # attribute such as #[align(..)], whatever the address space of the variable): C06's conditions, run here with encase on as well
    saved_bounds = dict(ctx.bounds)
    ctx.section('field-level contract (C06)', lambda: C06.run(ctx))
    ctx.bounds = dict(saved_bounds, field_level_contract='C06 run as a sub-check (its bounds: ' + str(ctx.bounds)[:300] + ')')
    ctx.extra['violations_by_rule'] = dict(seen, **(ctx.extra.get('violations_by_rule') or {}))


if __name__ == '__main__':
    sys.exit(main('C10', run))
