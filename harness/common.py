"""Shared plumbing of the property checks: exploration bookkeeping, assertion queries, native replay, known findings,
evidence files and exit codes.

exit 0  property held on everything explored (KNOWN-FINDING lines possible)
exit 1  VIOLATION property=<id> replay=<path>   (only after the counterexample reproduced against the real build)
exit 2  inconclusive: unsupported MIR / missing model / solver unknown / translator disagreement / counterexample that
        does not reproduce natively.  Never reported as success.
"""
import json
import os
import random
import sys
import time
import traceback

import z3

sys.path.insert(0, os.path.dirname(os.path.dirname(os.path.abspath(__file__))))
from mirsym.values import *                      # noqa
from mirsym.session import Session, env_passthrough, write_options, BuildError, VERIF   # noqa
from mirsym.interp import PathLimit              # noqa
from mirsym import tokens as T                   # noqa

KNOWN_FILE = os.path.join(VERIF, 'known_findings.json')


class Inconclusive(Exception):
    pass


def model_value(m, t):
    v = m.eval(t, model_completion=True)
    if z3.is_bool(v):
        return z3.is_true(v)
    if z3.is_bv_value(v):
        return v.as_long()
    if z3.is_fp_value(v) or z3.is_fp(v):
        return T.fp_to_float(z3.simplify(v))
    return str(v)


class Ctx:
    def __init__(self, pid, tier, seed):
        self.pid, self.tier, self.seed = pid, tier, seed
        self.t0 = time.time()
        self.rng = random.Random(seed)
        self.S = Session()
        self.queries = {'discharged': 0, 'unsat': 0, 'sat': 0, 'solver_s': 0.0}
        self.samples, self.assumptions, self.bounds, self.stubs = [], [], {}, []
        self.harnesses = []              # per-harness summaries
        self.replayed_ok = 0             # witnesses replayed natively whose decoded output matched the interpreter
        self.violations = []             # confirmed, not known
        self.known_hits = {}
        self.fixed_hits = []
        self.inconclusive = []
        self.vacuity = []
        self.anchors_entered = set()
        self.extra = {}
        kf = json.load(open(KNOWN_FILE)) if os.path.exists(KNOWN_FILE) else {'known': [], 'fixed': []}
        self.known = {k['key']: k for k in kf.get('known', []) if k['property'] == pid}
        z3.set_param('smt.random_seed', seed % 1000)
        z3.set_param('sat.random_seed', seed % 1000)

    # ------------------------------------------------------------------ exploration
    def explore(self, label, run, assume=(), env=None, anchors=(), max_paths=200000, timeout_s=None):
        it = self.S.interp(env, max_paths=max_paths, timeout_s=timeout_s)
        it.base = list(assume)
        t0 = time.time()
        res = it.explore(run)
        self.S.absorb(it)
        oks = sum(1 for r in res if r[1] == 'ok')
        entered = set(it.stats['calls'])
        missing = [a for a in anchors if a not in entered]
        if missing:
            raise Inconclusive(f'[{label}] anchored functions never entered: {missing} (the code has moved; update the harness)')
        self.anchors_entered |= entered
        self.harnesses.append({'harness': label, 'paths': len(res), 'non_panicking_paths': oks, 'queries': it.stats['queries'],
                               'blocks': it.stats['blocks'], 'time_s': round(time.time() - t0, 2)})
        self.last_interp = it
        return res

    # ------------------------------------------------------------------ assertion queries
    def check(self, pc, bad, timeout_ms=120000):
        """is `pc ∧ bad` satisfiable?  returns a model or None.  `bad` = negated property"""
        if bad is False:
            self.queries['discharged'] += 1
            self.queries['unsat'] += 1
            return None
        s = z3.Solver()
        s.set('timeout', timeout_ms)
        for c in pc:
            s.add(c)
        s.add(bad if not isinstance(bad, bool) else z3.BoolVal(bad))
        t0 = time.time()
        r = s.check()
        self.queries['solver_s'] += time.time() - t0
        self.queries['discharged'] += 1
        if r == z3.unknown:
            raise Inconclusive('solver returned unknown on an assertion query: ' + s.reason_unknown())
        self.cross_check(s, r)
        if r == z3.unsat:
            self.queries['unsat'] += 1
            return None
        self.queries['sat'] += 1
        return s.model()

    def cross_check(self, s, r):
        """a sample of the assertion queries is re-decided by cvc5 from z3's SMT-LIB2 rendering; a disagreement stops the check (exit 2).
        cvc5 answering unknown / timing out / rejecting a z3-specific construct is counted, not treated as agreement"""
        cs = self.extra.setdefault('cross_solver', {'solver': 'cvc5 (--lang smt2)', 'sampled_queries': 0, 'agree': 0, 'undecided_by_cvc5': 0})
        i = self.queries['discharged']
        thorough = self.tier == 'thorough'
        if os.environ.get('VERIF_NO_CROSSCHECK') or cs['sampled_queries'] >= (150 if thorough else 12):
            return
        if not (i <= (10 if thorough else 3) or i % (25 if thorough else 150) == 0):
            return
        import subprocess
        cs['sampled_queries'] += 1
        text = '(set-logic ALL)\n' + s.to_smt2()
        t0 = time.time()
        try:
            p = subprocess.run(['cvc5', '--lang', 'smt2', '--tlimit=20000'], input=text, capture_output=True, text=True, timeout=40)
            out = (p.stdout + '\n' + p.stderr).strip().splitlines()
        except (subprocess.TimeoutExpired, OSError):
            out = ['timeout']
        self.queries['solver_s'] += time.time() - t0
        verdict = next((l for l in out if l in ('sat', 'unsat')), None)
        if verdict is None or any(l.startswith('(error') for l in out):
            cs['undecided_by_cvc5'] += 1
            return
        if verdict != str(r):
            d = os.path.join(VERIF, 'evidence', 'replays')
            os.makedirs(d, exist_ok=True)
            f = os.path.join(d, f'{self.pid}-solver-disagreement-{i}.smt2')
            open(f, 'w').write(text)
            raise Inconclusive(f'z3 says {r} and cvc5 says {verdict} on assertion query #{i} ({f})')
        cs['agree'] += 1

    def witness(self, pc):
        """a model of the path condition (for vacuity checks and sample replays)"""
        s = z3.Solver()
        s.set('timeout', 60000)
        for c in pc:
            s.add(c)
        t0 = time.time()
        r = s.check()
        self.queries['solver_s'] += time.time() - t0
        if r != z3.sat:
            raise Inconclusive('path condition of an explored path is not satisfiable (vacuous path): ' + str(r))
        return s.model()

    def vacuity_witness(self, label, pc):
        """twin query with the property replaced by `false` must be sat: the assertion is reachable"""
        self.witness(pc)
        self.vacuity.append(label)

    # ------------------------------------------------------------------ findings
    def report(self, key, what, replay, reproduced, detail=None):
        """a counterexample, already replayed against the real build by the harness"""
        rec = {'property': self.pid, 'key': key, 'what': what, 'replay': replay, 'detail': detail}
        if not reproduced:
            self.inconclusive.append(f'counterexample for {key} did not reproduce natively: {what}')
            self.save_replay(rec, 'nonrepro')
            return
        if key in self.known:
            if key not in self.known_hits:
                self.known_hits[key] = rec
            return
        path = self.save_replay(rec, 'violation')
        rec['path'] = path
        self.violations.append(rec)

    def save_replay(self, rec, kind):
        d = os.path.join(VERIF, 'evidence', 'replays')
        os.makedirs(d, exist_ok=True)
        n = len(os.listdir(d))
        path = os.path.join(d, f'{self.pid}-{kind}-{abs(hash(rec["key"])) % 10000:04d}-{len(self.violations)}.json')
        json.dump(rec, open(path, 'w'), indent=1, default=str)
        return path

    def sample(self, obj):
        if len(self.samples) < 12:
            self.samples.append(json.loads(json.dumps(obj, default=str)))

    # ------------------------------------------------------------------ native helpers
    def gen_tokens(self, wgsl, options=None, include=None):
        """real create_shader_module* -> ('ok', tokens) | ('err', {...}) | ('panic', msg)"""
        r = self.S.oracle.gen(wgsl, options or {}, include)
        if 'ok' in r:
            lx = self.S.oracle.lex(r['ok'])
            if 'tokens' not in lx:
                raise Inconclusive('real output does not lex: ' + str(lx)[:300])
            return 'ok', T.from_json(lx['tokens']), r['ok']
        if 'err' in r:
            return 'err', r['err'], None
        if 'panic' in r:
            return 'panic', r['panic'], None
        raise Inconclusive('oracle failure: ' + str(r)[:300])

    def differential(self, wgsl, options=None, include=None):
        """translator validation: mirsym in concrete mode vs. the real build on one input; disagreement = exit 2"""
        S = self.S
        mod = S.module(wgsl)
        it = S.interp(env_passthrough(mod, wgsl))
        inc = none() if include is None else some(include)
        wo = dict(options or {})
        if isinstance(wo.get('validate'), bool):          # the oracle's JSON spelling (true = all capabilities) -> the interpreter's value
            wo['validate'] = Agg('Option', [Agg('ValidationOptions', [Agg('Capabilities', [Agg('InternalBitFlags', [0xffffffff])])])], variant='Some', disc=1) \
                if wo['validate'] else None
        res = it.explore(lambda it: it.call('create_shader_module_inner', [wgsl, inc, write_options(S.conv, **wo)]))
        S.absorb(it)
        if len(res) != 1:
            raise Inconclusive('concrete run forked')
        _, kind, out, _ = res[0]
        rk, rv, _ = self.gen_tokens(wgsl, options, include)
        if kind == 'panic':
            if rk != 'panic':
                raise Inconclusive(f'translator disagrees with the implementation: interpreter panics ({out}), real build: {rk}')
            return
        if out.disc != 0:
            if rk != 'err' or rv.get('kind') != out.fields[0].variant:
                raise Inconclusive(f'translator disagrees with the implementation: interpreter returns {out}, real build: {rk} {rv}')
            return
        if rk != 'ok':
            raise Inconclusive(f'translator disagrees with the implementation: interpreter returns Ok, real build: {rk} {rv}')
        d = T.first_diff(T.canon(out.fields[0].toks), T.canon(rv))
        if d is not None:
            raise Inconclusive('translator disagrees with the implementation on tokens: ' + d)
        self.replayed_ok += 1

    # ------------------------------------------------------------------ wrap up
    def section(self, label, fn):
        """run one part of a check; a part the engine cannot go through (missing model, changed signature ...) makes the whole run
        inconclusive (exit 2 unless a violation is found) but does not stop the other parts from looking for violations"""
        try:
            return fn()
        except Exception as e:
            if os.environ.get('VERIF_TRACEBACK'):
                traceback.print_exc(limit=-6)
            self.inconclusive.append(f'[{label}] {type(e).__name__}: {e}')
            return None

    def finish(self):
        S = self.S
        wall = time.time() - self.t0
        code = 0
        for key, rec in self.known_hits.items():
            print(f'KNOWN-FINDING: property={self.pid} {self.known[key]["what"]}')
        for v in self.violations:
            print(f'VIOLATION property={self.pid} replay={v["path"]}')
            print(f'  {v["key"]}: {v["what"]}')
            code = 1
        if self.inconclusive and code == 0:
            for m in self.inconclusive:
                print('INCONCLUSIVE:', m)
            code = 2
        elif self.inconclusive:
            for m in self.inconclusive:
                print('NOTE (inconclusive part):', m)
        states = S.totals['paths']
        ev = {
            'property_id': self.pid, 'tier': self.tier, 'seed': self.seed, 'level': 'model_checking',
            'coverage': {
                'states': states, 'transitions': S.totals['blocks'],
                'traces_validated_against_impl': self.replayed_ok,
                'samples': self.samples or [{'note': 'no sample recorded'}],
                'rule': 'state = one feasible path of the MIR of the anchored functions under the harness assumptions (path condition '
                        'decided by z3); transition = one MIR basic block executed; a trace counts as validated when the real build, '
                        'run natively on the input decoded from a solver model, produced the tokens / verdict the interpreter predicted',
                'harnesses': self.harnesses,
                'functions_encoded': sorted(n for n in S.totals['calls']),
                'function_invocations': {k: v for k, v in sorted(S.totals['calls'].items(), key=lambda kv: -kv[1])[:25]},
                'models_invoked': sorted(S.totals['models']),
                'stubs': self.stubs,
                'bounds': self.bounds,
                'branch_queries': S.totals['queries'],
                'queries_discharged': self.queries['discharged'], 'queries_unsat': self.queries['unsat'],
                'queries_sat': self.queries['sat'],
                'solver_time_s': round(self.queries['solver_s'] + S.totals['solver_s'], 3),
                'solver': 'z3 ' + z3.get_version_string(),
                'mir_sha256': S.mir_sha, 'source_sha256': S.src_sha, 'mir_regenerated_s': round(S.mir_s, 2),
                'vacuity_witnesses': len(self.vacuity),
                'known_findings_hit': sorted(self.known_hits),
                'exhaustive': False,
            },
            'assumptions': self.assumptions,
            'wall_s': round(wall, 2),
            'violations': len(self.violations),
        }
        ev['coverage'].update(self.extra)
        os.makedirs(os.path.join(VERIF, 'evidence'), exist_ok=True)
        if code != 2 and not os.environ.get('VERIF_NO_EVIDENCE'):
            json.dump(ev, open(os.path.join(VERIF, 'evidence', f'{self.pid}.json'), 'w'), indent=1, default=str)
        print(f'[{self.pid}] tier={self.tier} seed={self.seed} paths={states} blocks={S.totals["blocks"]} '
              f'assert-queries={self.queries["discharged"]} (unsat {self.queries["unsat"]}, sat {self.queries["sat"]}) '
              f'replayed={self.replayed_ok} known={len(self.known_hits)} violations={len(self.violations)} wall={wall:.1f}s exit={code}')
        S.close()
        return code


def concrete_name(m, sym, default):
    """a concrete identifier for the abstract string `sym` that satisfies the string predicates a model answered with True"""
    name = default
    for d in m.decls():
        n = d.name()
        if n.startswith('strpred|') and z3.is_true(m[d]):
            _, op, subj, pat, _ = n.split('|', 4)
            lit = pat.strip("'\"")
            if subj == repr(sym):
                name = {'starts_with': lit + 'x0', 'ends_with': 'x0' + lit, 'contains': 'x' + lit + '0', 'eq': lit}.get(op, name)
            elif subj == f'{{sym:to_uppercase({sym!r})}}' and op == 'eq':
                name = lit.lower()
    return name


def main(pid, run, native=None):
    """native(ctx): optional supplement run when the symbolic part is inconclusive - it can only turn an exit 2 into an exit 1
    (a violation reproduced on the real build); it never turns anything into a pass"""
    import argparse
    ap = argparse.ArgumentParser()
    ap.add_argument('--tier', default=os.environ.get('VERIF_TIER', 'quick'))
    ap.add_argument('--replay')
    a = ap.parse_args(sys.argv[2:] if len(sys.argv) > 1 and sys.argv[1] == pid else sys.argv[1:])
    seed = int(os.environ.get('VERIF_SEED', '0') or 0)
    try:
        ctx = Ctx(pid, a.tier, seed)
    except BuildError as e:
        print('INCONCLUSIVE: build failed:', e)
        return 2
    except Exception as e:          # e.g. MIR the parser does not know: never a pass, never a crash
        traceback.print_exc(limit=-8)
        print(f'INCONCLUSIVE: could not set up the run: {type(e).__name__}: {e}')
        return 2
    # wall-clock budget of the symbolic part: a changed implementation can make the exploration explode; that is an inconclusive
    # run (exit 2, followed by the native supplement), never an endless one
    import signal
    budget = int(os.environ.get('VERIF_BUDGET_S', '900' if a.tier == 'quick' else '14400'))

    def on_alarm(signum, frame):
        raise Inconclusive(f'time budget of {budget}s for the symbolic part exceeded')
    signal.signal(signal.SIGALRM, on_alarm)
    try:
        if a.replay:
            from harness import replay as R
            return R.replay(ctx, a.replay)
        signal.alarm(budget)
        run(ctx)
        signal.alarm(0)
        if ctx.inconclusive and native is not None and not (os.environ.get('VERIF_NATIVE_TOO') or a.tier == 'thorough'):
            # a part of the check could not be gone through (ctx.section): as after any inconclusive symbolic run, try to exhibit a
            # violation on the real build
            try:
                native(ctx)
            except Exception as e2:
                print(f'INCONCLUSIVE: native supplement failed: {type(e2).__name__}: {e2}')
        if native is not None and (os.environ.get('VERIF_NATIVE_TOO') or a.tier == 'thorough'):
            native(ctx)          # thorough tier: the native supplement always runs as well
        return ctx.finish()
    except Exception as e:           # Unsupported / Inconclusive / PathLimit / DecodeError, and any internal error of the machinery
        signal.alarm(0)
        traceback.print_exc(limit=-8)
        print(f'INCONCLUSIVE: {type(e).__name__}: {e}')
        ctx.inconclusive.append(f'{type(e).__name__}: {e}')
        if native is not None:
            # the symbolic engine could not go on (e.g. new code without a model): try to exhibit a violation on the real build
            try:
                ctx.violations_before = len(ctx.violations)
                native(ctx)
            except Exception as e2:          # the supplement must never mask the inconclusive verdict
                print(f'INCONCLUSIVE: native supplement failed: {type(e2).__name__}: {e2}')
        code = ctx.finish()
        return code if code == 1 else 2
