"""C06  Struct fields keep WGSL order, names and element types.

Real code executed symbolically: structs -> rust_struct -> struct_members -> rust_type / rust_scalar_type and the six
vector / matrix helpers.  Symbolic: the type of struct members over the whole WGSL leaf table (scalar kind x width, vector
size, matrix shape, atomics), fixed arrays (length any non-zero u32) of leaves / structs / other holes, a trailing
runtime-sized array, and the MatrixVectorTypes representation.  The oracle decodes the emitted Rust types semantically.
"""
import z3
from harness.common import *
from harness.structs_common import *

PLACE = {'HA': 'vec2<u32>', 'HB': 'vec3<u32>', 'HC': 'vec4<u32>'}


NAME0 = SymStr([('sym', 'Host_member0_name')])      # the NAME of the first member of Host is an abstract string


HOST_SPACE = {'Uniform': '<uniform>', 'Storage': '<storage, read_write>'}


def render(spell=None, decls='', name0='m0', space='Storage'):
    s = dict(PLACE)
    s.update(spell or {})
    return decls + f'''struct Inner {{ a: f32, b: vec3<f32> }}
struct Inner2 {{ a: f32, b: vec3<f32> }}
struct Host {{
  {name0}: {s["HA"]},
  m1: {s["HB"]},
  inner: Inner,
  inner2: Inner2,
  arr_inner: array<Inner, 3>,
  tail: {s["HC"]},
}}
@group(0) @binding(0) var{HOST_SPACE[space]} host: Host;
struct VIn {{ @location(2) p: vec4<f32>, @builtin(vertex_index) vi: u32, @location(0) q: vec2<i32>, @builtin(instance_index) ii: u32, @location(1) r: f32 }}
@vertex fn vs(in: VIn) -> @builtin(position) vec4<f32> {{ return in.p; }}
'''


def find_type(mj, pred):
    for i, t in enumerate(mj['types']):
        if pred(t):
            return i
    raise Inconclusive('template type not found')


def run(ctx):
    S, c = ctx.S, ctx.S.conv
    src = render()
    d = S.dump(src)
    mj = d['module']
    named = type_handles(mj)
    hf32 = find_type(mj, lambda t: t['inner'].get('Scalar') == {'kind': 'Float', 'width': 4})
    hh = {k: find_type(mj, lambda t, k=k: t['inner'].get('Vector') == {'scalar': {'kind': 'Uint', 'width': 4}, 'size': {'HA': 'Bi', 'HB': 'Tri', 'HC': 'Quad'}[k]})
          for k in PLACE}
    f32sem_ = {'kind': 'Float', 'width': 4, 'dims': [], 'leaf': 0, 'repr': 'scalar'}
    HA = TypeHole(ctx, 'HA', array_bases=[(hf32, f32sem_, 'f32')])          # HA may itself be array<f32, n>: HC = array<HB> of array<HA> is three levels
    HB = TypeHole(ctx, 'HB', array_bases=[(hh['HA'], HA, lambda m: HA.wgsl(m)), (named['Inner'], {'struct': 'Inner'}, 'Inner'),
                                          (hf32, {'kind': 'Float', 'width': 4, 'dims': [], 'leaf': 0, 'repr': 'scalar'}, 'f32')])
    HC = TypeHole(ctx, 'HC', array_bases=[(hh['HA'], HA, lambda m: HA.wgsl(m)), (named['Inner'], {'struct': 'Inner'}, 'Inner'),
                                          (hf32, {'kind': 'Float', 'width': 4, 'dims': [], 'leaf': 0, 'repr': 'scalar'}, 'f32'),
                                          (hh['HB'], HB, lambda m: HB.wgsl(m))], allow_dynamic=True)
    holes = {'HA': HA, 'HB': HB, 'HC': HC}
    fmt = z3.BitVec('matrix_vector_types', 64)
    host_space = z3.BitVec('host_variable_space', 64)
    ctx.bounds = {'structs': 'Host (5 members: 2 symbolic, nested struct, array of struct, symbolic trailing member) + vertex struct with interleaved builtins + nested Inner',
                  'member type': 'scalar/atomic/vector/matrix with kind, width, size, cols, rows symbolic; arrays of length any non-zero u32 over {f32, Inner, another hole}; nesting <= 3 (array of array of array)',
                  'representation': 'Rust / Glam / Nalgebra (symbolic)', 'member names': 'the name of Host\'s first member is an abstract string (any predicate the code asks about it is answered both ways)', 'type names': 'every symbolic member type is written directly or through a WGSL alias (symbolic)'}
    ctx.assumptions += ['scalar (kind, width) restricted to what WGSL can spell: i32 u32 f32 f64 bool (other widths make the generator refuse with todo!)',
                        'for `[[T; a]; b]` matrices the multiset {a, b} must equal {rows, cols} (the statement speaks of element counts); nalgebra must be exactly SMatrix<T, rows, cols>',
                        'an unknown Rust type name is inconclusive (exit 2), not a violation']

    def base_match_for(hole):
        def bm(base_term, sem):
            alts = []
            for h, what, _ in hole.bases:
                if isinstance(what, TypeHole):
                    alts.append(z3.And(base_term == h, what.matches(sem, base_match=base_match_for(what) if what.bases else None)))
                elif 'struct' in what:
                    alts.append(z3.And(base_term == h, z3.BoolVal(sem == what)))
                else:
                    same = ('kind' in sem and sem['kind'] == what['kind'] and sem['width'] == what['width'] and sem['dims'] == [] )
                    alts.append(z3.And(base_term == h, z3.BoolVal(bool(same))))
            return z3.Or(alts)
        return bm

    def pin(h, kind='Float', width=4):
        # holes that are not symbolic in this run are 3-component vectors (so that arrays of them are arrays of vec3)
        return [h.tdisc == h.TI['Vector'], h.vsize == 3, h.kind == h.SK[kind], h.width == width]
    plans = [('HA',), ('HB',), ('HC',), ('deep',)] if ctx.tier == 'quick' else [('HA', 'HB'), ('HA', 'HC'), ('HB',), ('HC',), ('deep',)]
    seen = {}
    opts_fixed = dict(derive_encase_host_shareable=True)
    for plan in plans:
        module = c.module(S.dump(src))
        types_ = c.get(module, 'types').fields[0].items
        c.set(c.get(types_[named['Host']], 'inner').fields[0].items[0], 'name', some(NAME0))
        # the address space of the variable that makes Host host-shareable is symbolic (uniform / storage)
        AS_ = {v['name']: v['disc'] for v in S.schema['enums']['AddressSpace']}
        from mirsym.schema import mkflags
        c.set(c.get(module, 'global_variables').fields[0].items[0], 'space', c.sym_enum('AddressSpace', host_space, {'Storage': [mkflags('StorageAccess', 3)]}))
        for k, h in holes.items():
            set_inner(ctx, module, hh[k], h.inner(ctx))
            c.set(types_[hh[k]], 'name', h.name_value())        # written directly or through `alias X = ...;` (symbolic)
        assume = [z3.ULT(fmt, 3), z3.Or(host_space == AS_['Uniform'], host_space == AS_['Storage']),
                  z3.Implies(z3.And(HC.tdisc == HC.TI['Array'], HC.adyn), host_space == AS_['Storage'])]      # runtime arrays: storage only
        ctx.host_space_name = lambda m_: 'Uniform' if model_value(m_, host_space) == AS_['Uniform'] else 'Storage'
        for k, h in holes.items():
            assume += h.assumption()
            if plan == ('deep',):
                # three nesting levels with three independent symbolic lengths: tail: array<array<array<f32, a>, b>, c>
                base_ = {'HA': hf32, 'HB': hh['HA'], 'HC': hh['HB']}[k]
                assume += [h.tdisc == h.TI['Array'], h.base == base_, z3.Not(h.adyn), z3.Not(h.aliased), z3.ULE(h.alen, 64)]
            elif k not in plan:
                assume += pin(h) + [z3.Not(h.aliased)]
            # types are unique in naga's arena: a symbolic array type is not the template's own `array<Inner, 3>`,
            # and two symbolic array types are not the same type
            if h.bases:
                assume.append(z3.Not(z3.And(h.tdisc == h.TI['Array'], h.base == named['Inner'], h.alen == 3, z3.Not(h.adyn))))
        for x_, y_ in ((HB, HC), (HA, HB), (HA, HC)):
            assume.append(z3.Not(z3.And(x_.tdisc == x_.TI['Array'], y_.tdisc == y_.TI['Array'], x_.base == y_.base, x_.alen == y_.alen, x_.adyn == y_.adyn)))
        # WGSL: a runtime-sized array may only be the last member (HC) and its element is not itself runtime-sized
        res = ctx.explore(f'structs/symbolic-{"+".join(plan)}',
                          lambda it: it.call('structs', [mkref(module), write_options(S.conv, matrix_vector_types=fmt, **opts_fixed)]),
                          assume=assume, anchors=['structs', 'rust_struct', 'struct_members', 'rust_type', 'rust_scalar_type'], timeout_s=3000)
        for pc, kind, out, _ in res:
            if kind == 'panic':
                # refusals are allowed only for the documented runtime-array cases; anything else on WGSL-expressible input is reported
                m = ctx.check(pc, z3.BoolVal(True))
                vals = {k: h.describe(m) for k, h in holes.items()}
                spell = {k: h.wgsl(m) for k, h in holes.items()}
                decls = [h.alias_decl(m) for h in holes.values()]
                if all(spell.values()) and None not in decls:
                    k2, r2, _ = ctx.gen_tokens(render(spell, ''.join(decls)), dict(opts_fixed, matrix_vector_types=['Rust', 'Glam', 'Nalgebra'][model_value(m, fmt)]))
                    if k2 == 'panic':
                        key = 'C06/refuses:' + out[:50]
                        seen[key] = seen.get(key, 0) + 1
                        if seen[key] == 1:
                            ctx.report(key, f'generator panics ({out}) on member types {spell}', {'wgsl': render(spell, ''.join(decls))}, True)
                    elif k2 == 'err':
                        pass            # the front end rejects this spelling (e.g. atomic<f32>): outside the input space
                    else:
                        raise Inconclusive(f'interpreter panics ({out}) but the real build does not, on {spell}')
                continue
            try:
                sts, order = decode_structs(out.toks)
                conds = conditions(sts, order, holes, base_match_for, fmt)
            except UnknownType as e:
                raise Inconclusive(f'emitted Rust type the decoder does not know: {e}')
            m = ctx.check(pc, z3.Or([z3.Not(c_) for _, c_ in conds]))
            if m is None:
                continue
            failed = [n for n, c_ in conds if not z3.is_true(m.eval(c_, model_completion=True))]
            key = 'C06/' + failed[0]
            seen[key] = seen.get(key, 0) + 1
            if seen[key] > 1:
                continue
            rep, det = replay(ctx, holes, fmt, m, opts_fixed, base_match_for, failed[0])
            ctx.report(key, f'"{failed[0]}" fails for member types { {k: h.describe(m) for k, h in holes.items() if k in plan} } '
                            f'under {["Rust", "Glam", "Nalgebra"][model_value(m, fmt)]}', det, rep, det)
        oks = [r for r in res if r[1] == 'ok']
        ctx.vacuity_witness('struct assertions reachable', oks[0][0])
        # translator validation: witnesses rendered to WGSL, token-exact against the real build
        step = max(1, len(oks) // (5 if ctx.tier == 'quick' else 40))
        for r in oks[::step]:
            m = ctx.witness(r[0])
            spell = {k: h.wgsl(m) for k, h in holes.items()}
            decls = [h.alias_decl(m) for h in holes.values()]
            if not all(spell.values()) or None in decls:
                continue
            o = dict(opts_fixed, matrix_vector_types=['Rust', 'Glam', 'Nalgebra'][model_value(m, fmt)])
            k2, _, _ = ctx.gen_tokens(render(spell, ''.join(decls)), o)
            if k2 == 'ok':
                ctx.differential(render(spell, ''.join(decls)), o)
                ctx.sample({'members': spell, 'representation': o['matrix_vector_types']})
    ctx.extra['violations_by_rule'] = seen
    # which members become fields at all (builtins skipped, whatever the derive switches and the role of the struct): C05's template has
    # host-shareable structs with interleaved builtins under all 2^4 switches - run here as a sub-check
    from harness import c05 as C05
    saved_bounds = dict(ctx.bounds)
    ctx.section('fields of structs with builtins under every option set (C05)', lambda: C05.run(ctx))
    ctx.bounds = dict(saved_bounds, fields_under_all_options='C05 run as a sub-check')
    ctx.extra['violations_by_rule'] = dict(seen, **(ctx.extra.get('violations_by_rule') or {}))


def conditions(sts, order, holes, base_match_for, fmt=None):
    B = z3.BoolVal
    conds = []
    HA, HB, HC = holes['HA'], holes['HB'], holes['HC']
    host = sts.get('Host')
    conds.append(('Host emitted', B(host is not None)))
    if host:
        names = [f[0] for f in host['fields']]
        conds.append(('Host: members in declaration order under the same names', B(names == [NAME0, 'm1', 'inner', 'inner2', 'arr_inner', 'tail'])))
        fd = {f[0]: f for f in host['fields']}
        if NAME0 in fd:
            conds.append(('Host.m0: element type', HA.matches(decode_type(fd[NAME0][2]), base_match=base_match_for(HA))))
            if fmt is not None:
                conds.append(('Host.m0: spelled in the selected representation', HA.repr_ok(decode_type(fd[NAME0][2]), fmt)))
        if 'm1' in fd:
            conds.append(('Host.m1: element type', HB.matches(decode_type(fd['m1'][2]), base_match=base_match_for(HB))))
        if 'inner' in fd:
            conds.append(('Host.inner: nested struct by name', B(decode_type(fd['inner'][2]) == {'struct': 'Inner'})))
        if 'inner2' in fd:
            conds.append(('Host.inner2: nested struct by its own name (a second struct with an identical body)', B(decode_type(fd['inner2'][2]) == {'struct': 'Inner2'})))
        if 'arr_inner' in fd:
            conds.append(('Host.arr_inner: array of struct keeps its length', B(decode_type(fd['arr_inner'][2]) == {'array': 3, 'elem': {'struct': 'Inner'}})))
        if 'tail' in fd:
            sem = decode_type(fd['tail'][2])
            is_rt = z3.And(HC.tdisc == HC.TI['Array'], HC.adyn)
            if fmt is not None:
                # element of the trailing (runtime or fixed) array, when it is one of the symbolic leaf types: selected representation too
                el = sem.get('rt') or sem.get('elem')
                if isinstance(el, dict) and 'repr' in el:
                    for h_, what_, _ in HC.bases:
                        if isinstance(what_, TypeHole):
                            conds.append((f'Host.tail: elements spelled in the selected representation', z3.Implies(
                                z3.And(HC.tdisc == HC.TI['Array'], HC.base == h_), what_.repr_ok(el, fmt))))
            if 'rt' in sem:
                marked = fd['tail'][1] == ['size (runtime)']
                conds.append(('Host.tail: runtime array -> Vec<elem> marked #[size(runtime)]',
                              z3.And(is_rt, B(marked), base_match_for(HC)(HC.base, sem['rt']))))
            else:
                conds.append(('Host.tail: element type', z3.And(z3.Not(is_rt), B(fd['tail'][1] == []), HC.matches(sem, base_match=base_match_for(HC)))))
        for n in (NAME0, 'm1', 'inner', 'inner2', 'arr_inner'):
            if n in fd:
                conds.append((f'Host.{n}: no stray attribute', B(fd[n][1] == [])))
    vin = sts.get('VIn')
    conds.append(('VIn emitted', B(vin is not None)))
    if vin:
        got = [(f[0], decode_type(f[2])) for f in vin['fields']]

        def same(sem, kind, width, n):
            return sem.get('kind') == kind and sem.get('width') == width and sem.get('dims') == ([n] if n else [])
        conds.append(('VIn: builtins skipped, located members in order with their types',
                      B([g[0] for g in got] == ['p', 'q', 'r'] and len(got) == 3 and same(got[0][1], 'Float', 4, 4) and same(got[1][1], 'Sint', 4, 2)
                        and same(got[2][1], 'Float', 4, 0))))
    inner = sts.get('Inner')
    conds.append(('Inner emitted once with its members', B(inner is not None and [f[0] for f in inner['fields']] == ['a', 'b'] and 'duplicates' not in inner)))
    conds.append(('Inner2 emitted once', B('Inner2' in sts and 'duplicates' not in sts['Inner2'])))
    return conds


def replay(ctx, holes, fmt, m, opts_fixed, base_match_for, failed):
    spell = {k: h.wgsl(m) for k, h in holes.items()}
    decls = [h.alias_decl(m) for h in holes.values()]
    if not all(spell.values()) or None in decls:
        return False, {'note': f'no WGSL spelling for {spell}'}
    o = dict(opts_fixed, matrix_vector_types=['Rust', 'Glam', 'Nalgebra'][model_value(m, fmt)])
    name0 = concrete_name(m, NAME0, 'm0')
    src = render(spell, ''.join(decls), name0, ctx.host_space_name(m))
    kind, toks, _ = ctx.gen_tokens(src, o)
    det = {'wgsl': src, 'options': o}
    if kind != 'ok':
        det['real'] = f'{kind}: {toks}'
        return kind == 'panic', det
    try:
        sts, order = decode_structs(toks)
        if 'Host' in sts:       # the native output carries the concrete name where the symbolic run has the abstract one
            sts['Host']['fields'] = [((NAME0 if f[0] == name0 else f[0]),) + tuple(f[1:]) for f in sts['Host']['fields']]
        conds = conditions(sts, order, holes, base_match_for, fmt)
    except (UnknownType, T.DecodeError) as e:
        det['real'] = f'does not decode: {e}'
        return True, det
    s = z3.Solver()
    s.add(fmt == m.eval(fmt, model_completion=True))
    for h in holes.values():
        for v in h.vars():
            s.add(v == m.eval(v, model_completion=True))
    bad = []
    for n, c_ in conds:
        s.push()
        s.add(z3.Not(c_))
        if s.check() == z3.sat:
            bad.append(n)
        s.pop()
    det['failed'] = bad
    det['real'] = {k: [(f[0], T.text(f[2])) for f in v['fields']] for k, v in sts.items() if isinstance(v, dict)}
    return bool(bad), det


if __name__ == '__main__':
    sys.exit(main('C06', run))
