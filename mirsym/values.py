"""Value domain of the MIR symbolic interpreter.

Scalars are Python ints/bools when concrete and z3 bit-vectors / Booleans when symbolic.  Everything else is a small
Python object; containers hold values of either kind.
"""
import z3


class Panic(Exception):
    """the interpreted program panicked on this path"""


class Unsupported(Exception):
    """the interpreter cannot go on (unknown MIR construct, missing model, solver unknown): the run is inconclusive"""


class Cell:
    __slots__ = ('v',)

    def __init__(self, v=None):
        self.v = v


def step(v, p):
    while isinstance(v, Ref):
        v = v.get()
    if isinstance(v, Agg):
        return v.fields[p]
    if isinstance(v, VecV):
        return v.items[p]
    if isinstance(v, MapSlot):
        return v.get()[p] if not isinstance(v.get(), Agg) else v.get().fields[p]
    return v[p]


def step_set(v, p, nv):
    while isinstance(v, Ref):
        v = v.get()
    if isinstance(v, Agg):
        v.fields[p] = nv
    elif isinstance(v, VecV):
        v.items[p] = nv
    else:
        v[p] = nv


class Ref:
    """a reference: cell + projection path (field index, variant name of a symbolic enum, or list index)"""
    __slots__ = ('cell', 'path')

    def __init__(self, cell, path=()):
        self.cell, self.path = cell, tuple(path)

    def get(self):
        v = self.cell.v
        for p in self.path:
            v = step(v, p)
        return v

    def set(self, nv):
        if not self.path:
            self.cell.v = nv
            return
        v = self.cell.v
        for p in self.path[:-1]:
            v = step(v, p)
        step_set(v, self.path[-1], nv)

    def proj(self, p):
        return Ref(self.cell, self.path + (p,))

    def __repr__(self):
        return f'&{self.get()!r}'


def mkref(v):
    return Ref(Cell(v))


def deref(a):
    """strip any number of reference layers"""
    while isinstance(a, Ref):
        a = a.get()
    return a


def deref1(a):
    return a.get() if isinstance(a, Ref) else a


class Agg:
    """tuple / struct / enum value.  `disc` is a Python int or a z3 term; for an enum whose variant is symbolic `fields`
    is a dict variant-name -> list (one payload per variant that is possible), otherwise a list."""

    def __init__(self, path, fields, variant=None, disc=None):
        self.path = path
        self.fields = fields if isinstance(fields, dict) else list(fields)
        self.variant, self.disc = variant, disc

    def __repr__(self):
        v = '::' + str(self.variant) if self.variant is not None else ''
        if isinstance(self.fields, dict):
            return f'{self.path}<sym {self.disc}>'
        return f'{self.path}{v}{self.fields if self.fields else ""}'


UNIT = Agg('()', [])


def unit():
    return Agg('()', [])


def none():
    return Agg('Option', [], variant='None', disc=0)


def some(v):
    return Agg('Option', [v], variant='Some', disc=1)


def ok(v):
    return Agg('Result', [v], variant='Ok', disc=0)


def err(v):
    return Agg('Result', [v], variant='Err', disc=1)


def tup(*xs):
    return Agg('()', list(xs))


class VecV:
    def __init__(self, items=None):
        self.items = list(items or [])

    def __repr__(self):
        return 'vec' + repr(self.items)


class Opaque:
    """a value the crate code never looks into"""

    def __init__(self, what=None):
        self.what = what

    def __repr__(self):
        return f'Opaque({self.what!r})'[:60]


class Closure:
    def __init__(self, name, caps):
        self.name, self.caps = name, caps

    def __repr__(self):
        return self.name


class FnItem:
    def __init__(self, name):
        self.name = name


# ---------------------------------------------------------------------------------------------- strings
class SymStr:
    """abstract string: concatenation of concrete pieces, ('dec', term) decimal renderings and ('sym', name) unknowns"""

    def __init__(self, parts):
        out = []
        for p in parts:
            if isinstance(p, SymStr):
                ps = p.parts
            else:
                ps = [p]
            for q in ps:
                if isinstance(q, str) and out and isinstance(out[-1], str):
                    out[-1] += q
                elif q != '':
                    out.append(q)
        self.parts = out

    def key(self):
        return tuple(p if isinstance(p, str) else (p[0], str(p[1])) for p in self.parts)

    def __eq__(self, o):
        return isinstance(o, SymStr) and self.key() == o.key()

    def __hash__(self):
        return hash(self.key())

    def __repr__(self):
        return ''.join(p if isinstance(p, str) else '{%s:%s}' % (p[0], p[1]) for p in self.parts)


def sconcat(parts):
    s = SymStr(parts)
    if all(isinstance(p, str) for p in s.parts):
        return ''.join(s.parts)
    return s


# ---------------------------------------------------------------------------------------------- tokens
class Tok:
    """k: 'ident' (v = str | SymStr), 'punct' (v = str), 'lit' (v = (kind, value)), 'group' (v = (delims, [Tok]))"""
    __slots__ = ('k', 'v')

    def __init__(self, k, v):
        self.k, self.v = k, v

    def __repr__(self):
        if self.k == 'group':
            return self.v[0][0] + ' '.join(map(repr, self.v[1])) + self.v[0][1]
        if self.k == 'lit':
            return f'{self.v[1]!r}' if self.v[0] == 'string' else f'{self.v[1]}:{self.v[0]}'
        return str(self.v)


class TokStream:
    def __init__(self, toks=None):
        self.toks = list(toks or [])

    def __repr__(self):
        return ' '.join(map(repr, self.toks))


class TokString:
    """the String produced by TokenStream::to_string / prettyplease / rustfmt: remembers the tokens it renders"""

    def __init__(self, toks, via=()):
        self.toks, self.via = toks, tuple(via)

    def __repr__(self):
        return f'TokString(via={self.via})'


# ---------------------------------------------------------------------------------------------- maps / sets
class MapSlot:
    """place inside a BTreeV entry (so that `*map.entry(k).or_insert(v) = x` writes back)"""

    def __init__(self, entry):
        self.entry = entry

    def get(self):
        return self.entry[1]


class SlotCell:
    __slots__ = ('entry',)

    def __init__(self, entry):
        self.entry = entry

    @property
    def v(self):
        return self.entry[1]

    @v.setter
    def v(self, nv):
        self.entry[1] = nv


class KeyCell:
    __slots__ = ('entry',)

    def __init__(self, entry):
        self.entry = entry

    @property
    def v(self):
        return self.entry[0]


class BTreeV:
    """ordered association list; `entries` is kept sorted by key (comparisons are decided by the interpreter)"""

    def __init__(self):
        self.entries = []     # [key, value] lists


class HashSetV:
    def __init__(self):
        self.items = []


def is_sym(v):
    return isinstance(v, z3.ExprRef)


def copy_val(v):
    """`copy` of a Copy type: duplicate the aggregate skeleton so later field writes do not alias"""
    if isinstance(v, Agg):
        if isinstance(v.fields, dict):
            return Agg(v.path, {k: [copy_val(x) for x in f] for k, f in v.fields.items()}, v.variant, v.disc)
        return Agg(v.path, [copy_val(x) for x in v.fields], v.variant, v.disc)
    return v


def clone_val(v):
    """Clone::clone: deep copy of owned data (references stay shared)"""
    if isinstance(v, Agg):
        if isinstance(v.fields, dict):
            return Agg(v.path, {k: [clone_val(x) for x in f] for k, f in v.fields.items()}, v.variant, v.disc)
        return Agg(v.path, [clone_val(x) for x in v.fields], v.variant, v.disc)
    if isinstance(v, VecV):
        return VecV([clone_val(x) for x in v.items])
    if isinstance(v, list):
        return [clone_val(x) for x in v]
    return v
