"""One check run: regenerate the MIR of /repo's working tree, rebuild the native oracle against it, load schema + models."""
import fcntl
import hashlib
import os
import shutil
import subprocess
import sys
import time

from . import mirparse
from .interp import Interp
from .models import MODELS, load_consts
from .oracle import Oracle, VERIF, CACHE as _CACHE
from .schema import load_schema, Conv
from .values import *

REPO = os.environ.get('VERIF_REPO', '/repo')
CACHE = _CACHE
ENV = dict(os.environ, CARGO_NET_OFFLINE='true', CARGO_TERM_COLOR='never')


class BuildError(Exception):
    pass


def sh(cmd, cwd, env=None, timeout=1800):
    p = subprocess.run(cmd, cwd=cwd, env=env or ENV, capture_output=True, text=True, timeout=timeout)
    return p.returncode, p.stdout, p.stderr


def regenerate_mir():
    """copy the crate sources from /repo's working tree to a scratch package and dump its MIR with the nightly"""
    os.makedirs(CACHE, exist_ok=True)
    lock = open(os.path.join(CACHE, 'build.lock'), 'w')
    fcntl.flock(lock, fcntl.LOCK_EX)
    try:
        scratch = os.path.join(CACHE, 'mirsrc')
        if os.path.exists(scratch):
            shutil.rmtree(scratch)
        os.makedirs(scratch)
        src = os.path.join(REPO, 'wgsl_to_wgpu')
        shutil.copytree(os.path.join(src, 'src'), os.path.join(scratch, 'src'))
        toml = open(os.path.join(src, 'Cargo.toml')).read()
        toml = toml.replace('readme = "../README.md"', '')
        open(os.path.join(scratch, 'Cargo.toml'), 'w').write(toml + '\n[workspace]\n')
        shutil.copy(os.path.join(REPO, 'Cargo.lock'), os.path.join(scratch, 'Cargo.lock'))
        env = dict(ENV, CARGO_TARGET_DIR=os.path.join(CACHE, 'mir-target'))
        t0 = time.time()
        rc, out, errt = sh(['cargo', '+nightly', 'rustc', '--offline', '--lib', '--', '-Zunpretty=mir', '-C', 'overflow-checks=on',
                            '-C', 'debug-assertions=off'], scratch, env)
        if rc != 0 or 'fn create_shader_module_inner' not in out:
            raise BuildError('MIR dump failed:\n' + errt[-3000:])
        h = hashlib.sha256()
        for root, _, files in sorted(os.walk(os.path.join(scratch, 'src'))):
            for f in sorted(files):
                if f.endswith('.rs'):
                    h.update(open(os.path.join(root, f), 'rb').read())
        return out, hashlib.sha256(out.encode()).hexdigest(), h.hexdigest(), time.time() - t0
    finally:
        fcntl.flock(lock, fcntl.LOCK_UN)
        lock.close()


def build_oracle():
    lock = open(os.path.join(CACHE, 'oracle.lock'), 'w')
    fcntl.flock(lock, fcntl.LOCK_EX)
    try:
        env = dict(ENV, CARGO_TARGET_DIR=os.path.join(CACHE, 'oracle-target'))
        crate = os.path.join(VERIF, 'oracle')
        if REPO != '/repo':
            # dev only (VERIF_REPO): the helper crate names the repository by path; build a copy that names the other tree
            crate = os.path.join(CACHE, 'oracle-src')
            if os.path.exists(crate):
                shutil.rmtree(crate)
            shutil.copytree(os.path.join(VERIF, 'oracle'), crate, ignore=shutil.ignore_patterns('target'))
            t = open(os.path.join(crate, 'Cargo.toml')).read().replace('"/repo/wgsl_to_wgpu"', f'"{REPO}/wgsl_to_wgpu"')
            open(os.path.join(crate, 'Cargo.toml'), 'w').write(t)
        rc, out, errt = sh(['cargo', 'build', '--offline'], crate, env)
        if rc != 0:
            raise BuildError('oracle build failed:\n' + errt[-3000:])
    finally:
        fcntl.flock(lock, fcntl.LOCK_UN)
        lock.close()


class Session:
    def __init__(self, need_oracle=True):
        t0 = time.time()
        text, self.mir_sha, self.src_sha, self.mir_s = regenerate_mir()
        self.bodies = mirparse.parse_mir(text)
        if need_oracle:
            build_oracle()
            self.oracle = Oracle()
        else:
            self.oracle = None
        self.schema = load_schema()
        # field order of the crate's own structs (GroupBinding, WriteOptions, VertexInput ...), from the working tree
        from .schema import extract
        self.local_structs = {}
        srcdir = os.path.join(REPO, 'wgsl_to_wgpu', 'src')
        for f in sorted(os.listdir(srcdir)):
            if f.endswith('.rs'):
                try:
                    st, en = extract(os.path.join(srcdir, f))
                    self.local_structs.update({k: [n for n, _ in v] for k, v in st.items()})
                    for k, v in en.items():
                        self.schema['enums'].setdefault(k, v)       # the crate's own enums (MatrixVectorTypes, CreateModuleError)
                except Exception:
                    pass
        self.conv = Conv(self.schema)
        self.conv.write_options_order = self.local_structs.get('WriteOptions')
        self.consts = load_consts(self.schema)
        self.setup_s = time.time() - t0
        self.totals = {'paths': 0, 'queries': 0, 'solver_s': 0.0, 'blocks': 0, 'calls': {}, 'models': {}}
        self._dumps = {}

    def interp(self, env=None, **kw):
        e = {'schema': self.schema, 'conv': self.conv, 'oracle': self.oracle}
        e.update(env or {})
        it = Interp(self.bodies, MODELS, self.consts, env=e, **kw)
        it.session = self
        return it

    def absorb(self, it):
        """accumulate interpreter statistics for the evidence file"""
        s = it.stats
        for k in ('paths', 'queries', 'solver_s', 'blocks'):
            self.totals[k] += s[k]
        for k in ('calls', 'models'):
            for n, c in s[k].items():
                self.totals[k][n] = self.totals[k].get(n, 0) + c

    def dump(self, wgsl):
        if wgsl not in self._dumps:
            d = self.oracle.dump(wgsl)
            if 'module' not in d:
                raise BuildError('template does not parse with the real naga front end: ' + str(d)[:2000] + '\n' + wgsl)
            self._dumps[wgsl] = d
        import copy
        return copy.deepcopy(self._dumps[wgsl])

    def module(self, wgsl):
        return self.conv.module(self.dump(wgsl))

    def close(self):
        if self.oracle:
            self.oracle.close()


# ------------------------------------------------------------------------------------------ standard environments
def env_passthrough(module, source=None):
    """environment for create_shader_module_inner: parse_str returns the given module (for the given source)"""
    def parse_str(it, s):
        if source is not None and not (s == source):
            raise Unsupported(f'parse_str called with a string that is not the harness source: {s!r}')
        it.env.setdefault('parse_args', []).append(s)
        return ok(module)

    def validate(it, v, m):
        it.env.setdefault('validate_calls', []).append((v, m))
        return ok(Opaque('ModuleInfo'))
    return {'parse_str': parse_str, 'validate': validate}


def write_options(conv, derive_bytemuck_vertex=False, derive_bytemuck_host_shareable=False, derive_encase_host_shareable=False,
                  derive_serde=False, matrix_vector_types=0, rustfmt=False, validate=None):
    """WriteOptions value in MIR field order (read from the MIR-independent declaration order in lib.rs)"""
    mv = matrix_vector_types
    if isinstance(mv, str):
        mv = {'Rust': 0, 'Glam': 1, 'Nalgebra': 2}[mv]
    mvv = Agg('MatrixVectorTypes', [], variant=None, disc=mv)
    val = none() if validate is None else validate
    vals = {'derive_bytemuck_vertex': derive_bytemuck_vertex, 'derive_bytemuck_host_shareable': derive_bytemuck_host_shareable,
            'derive_encase_host_shareable': derive_encase_host_shareable, 'derive_serde': derive_serde,
            'matrix_vector_types': mvv, 'rustfmt': rustfmt, 'validate': val}
    order = getattr(conv, 'write_options_order', None) or list(vals)
    if set(order) != set(vals):
        raise Unsupported('WriteOptions has fields the harness does not know: ' + str(order))
    return Agg('WriteOptions', [vals[k] for k in order])
