"""Library models: every callee that is not a body of the crate's own MIR.

Dispatch is by regular expression on the callee path (closure types abbreviated to {C}).  A callee without a model
stops the run (Unsupported -> exit 2), it is never skipped.
"""
import re
import struct
import z3
from .values import *
from .schema import mkflags, flag_bits

MODELS = []


def model(pat):
    def deco(fn):
        MODELS.append((re.compile(pat), fn))
        return fn
    return deco


def arg0(a):
    return deref(a[0])


# =========================================================================================== quote / proc_macro2
PUNCT = {'colon2': '::', 'colon': ':', 'comma': ',', 'dot': '.', 'and': '&', 'semi': ';', 'eq': '=', 'lt': '<', 'gt': '>',
         'pound': '#', 'bang': '!', 'rarrow': '->', 'dot2': '..', 'eq_eq': '==', 'underscore': '_', 'star': '*',
         'add': '+', 'sub': '-', 'div': '/', 'rem': '%', 'or': '|', 'and_and': '&&', 'or_or': '||', 'ne': '!=',
         'le': '<=', 'ge': '>=', 'fat_arrow': '=>', 'question': '?', 'at': '@', 'caret': '^', 'shl': '<<', 'shr': '>>',
         'add_eq': '+=', 'sub_eq': '-=', 'mul_eq': '*=', 'div_eq': '/=', 'dot3': '...', 'dot_dot_eq': '..='}
DELIM = {'Parenthesis': '()', 'Brace': '{}', 'Bracket': '[]', 'None': '  '}


def ts_of(v):
    v = deref(v)
    while isinstance(v, Agg) and v.path in ('RepInterp', 'Option') and v.fields:
        v = deref(v.fields[0])
    return v


@model(r'TokenStream::new$')
def m_ts_new(it, n, a):
    return TokStream()


@model(r'__private::push_ident$')
def m_push_ident(it, n, a):
    arg0(a).toks.append(Tok('ident', a[1]))
    return unit()


@model(r'__private::push_lifetime$')
def m_push_lifetime(it, n, a):
    s = a[1]
    arg0(a).toks.append(Tok('punct', "'"))
    arg0(a).toks.append(Tok('ident', s[1:]))
    return unit()


@model(r'__private::push_group$')
def m_push_group(it, n, a):
    arg0(a).toks.append(Tok('group', (DELIM[a[1].variant], list(a[2].toks))))
    return unit()


@model(r'__private::push_(\w+)$')
def m_push_punct(it, n, a):
    k = re.search(r'push_(\w+)$', n).group(1)
    if k == 'underscore':
        arg0(a).toks.append(Tok('ident', '_'))
        return unit()
    if k not in PUNCT:
        raise Unsupported('punctuation ' + k)
    arg0(a).toks.append(Tok('punct', PUNCT[k]))
    return unit()


def lex_concrete(it, s):
    """tokenise a concrete string the way proc_macro2 does (through the native oracle)"""
    if not isinstance(s, str):
        raise Unsupported(f'lexing a non-concrete string {s!r}')
    cache = it.env.setdefault('lex_cache', {})
    if s not in cache:
        r = it.env['oracle'].lex(s)
        if 'tokens' not in r:
            cache[s] = None
        else:
            from .tokens import from_json
            cache[s] = from_json(r['tokens'])
    return cache[s]


@model(r'__private::parse$')
def m_quote_parse(it, n, a):
    toks = lex_concrete(it, a[1])
    if toks is None:
        raise Panic('quote::__private::parse: invalid token stream')
    arg0(a).toks.extend(toks)
    return unit()


@model(r'str>::parse::<TokenStream>$')
def m_str_parse_ts(it, n, a):
    s = deref(a[0])
    if isinstance(s, SymStr):
        # an abstract identifier string: tokenises to one identifier (assumption recorded by the harness)
        return ok(TokStream([Tok('ident', s)]))
    toks = lex_concrete(it, s)
    if toks is None:
        return err(Opaque('LexError'))
    return ok(TokStream(toks))


@model(r'(TokenStream|RepInterp<&?TokenStream>|&TokenStream) as ToTokens>::to_tokens$')
def m_ts_to_tokens(it, n, a):
    arg_dst = deref(a[1])
    arg_dst.toks.extend(ts_of(a[0]).toks)
    return unit()


@model(r'Option<TokenStream> as ToTokens>::to_tokens$')
def m_opt_ts_to_tokens(it, n, a):
    o = deref(a[0])
    if o.disc == 1:
        deref(a[1]).toks.extend(deref(o.fields[0]).toks)
    return unit()


@model(r'^<&?(proc_macro2::)?(Literal|Ident) as ToTokens>::to_tokens$')
def m_tok_to_tokens(it, n, a):
    deref(a[1]).toks.append(deref(a[0]))
    return unit()


@model(r'^<&?(String|&?str) as ToTokens>::to_tokens$|^<(quote::__private::)?RepInterp<&?(String|&?str)> as ToTokens>::to_tokens$')
def m_str_to_tokens(it, n, a):
    v = deref(a[0])
    if isinstance(v, Agg) and 'RepInterp' in str(v.path):
        v = deref(v.fields[0])
    deref(a[1]).toks.append(Tok('lit', ('string', v)))
    return unit()


@model(r'^<&?bool as ToTokens>::to_tokens$')
def m_bool_to_tokens(it, n, a):
    b = deref(a[0])
    deref(a[1]).toks.append(Tok('ident', 'true' if it.truth(b) else 'false'))
    return unit()


@model(r'^<&?(f32|f64|i32|i64|u32|u64|u8|u16|i8|i16|usize|isize) as ToTokens>::to_tokens$')
def m_num_to_tokens(it, n, a):
    ty = re.search(r'<&?(\w+) as ToTokens', n).group(1)
    v = deref(a[0])
    # quote: tokens.append(Literal::{ty}_suffixed(*self)); proc_macro2 panics on non-finite floats
    if ty in ('f32', 'f64'):
        if isinstance(v, float):
            if v != v or v in (float('inf'), float('-inf')):
                raise Panic('Invalid float literal (not finite)')
        elif is_sym(v):
            if it.truth(z3.Or(z3.fpIsNaN(v), z3.fpIsInf(v))):
                raise Panic('Invalid float literal (not finite)')
    deref(a[1]).toks.append(Tok('lit', (ty, v)))
    return unit()


@model(r'^<&?impl ToTokens as ToTokens>::to_tokens$')
def m_generic_to_tokens(it, n, a):
    """unmonomorphised `impl ToTokens` argument: dispatch on the value actually passed"""
    v = deref(a[0])
    dst = deref(a[1])
    if isinstance(v, Tok):
        dst.toks.append(v)
    elif isinstance(v, TokStream):
        dst.toks.extend(v.toks)
    elif is_sym(v) and z3.is_fp(v):
        ty = 'f32' if v.sort().sbits() == 24 else 'f64'
        return m_num_to_tokens(it, f'<{ty} as ToTokens>::to_tokens', a)
    elif isinstance(v, bool) or (is_sym(v) and z3.is_bool(v)):
        return m_bool_to_tokens(it, n, a)
    elif isinstance(v, (str, SymStr)):
        return m_str_to_tokens(it, n, a)
    else:
        prim = [t.strip() for t in (it.gstack[-1].split(',') if it.gstack else []) if t.strip() in ('f32', 'f64', 'i32', 'i64', 'u32', 'u64', 'u8', 'u16', 'usize')]
        if len(prim) == 1 and isinstance(v, (int, float)) or is_sym(v):
            if len(prim) == 1:
                return m_num_to_tokens(it, f'<{prim[0]} as ToTokens>::to_tokens', a)
        raise Unsupported(f'{n} on a value whose static type is not recoverable: {v!r}')
    return unit()


@model(r'Literal::usize_unsuffixed$')
def m_lit_usize(it, n, a):
    return Tok('lit', ('usize_unsuffixed', a[0]))


@model(r'Literal::string$')
def m_lit_string(it, n, a):
    return Tok('lit', ('string', deref(a[0])))


@model(r'Span::call_site$')
def m_span(it, n, a):
    return Agg('Span', [])


def ident_ok(s):
    return re.match(r'^[^\W\d]\w*$', s) is not None or (s.startswith('r#') and re.match(r'^[^\W\d]\w*$', s[2:]) is not None)


@model(r'Ident::new$')
def m_ident_new(it, n, a):
    s = deref(a[0])
    if isinstance(s, str):
        if s == '':
            raise Panic('Ident is not allowed to be empty; use Option<Ident>')
        if not ident_ok(s) and s != '_':
            raise Panic(f'{s!r} is not a valid Ident')
    return Tok('ident', s)


@model(r'quote_into_iter$')
def m_quote_into_iter(it, n, a):
    v = a[0]
    d = deref(v)
    if isinstance(d, (list, VecV)):
        itr = SliceIter(d)
    elif isinstance(d, IterBase):
        itr = d
    else:
        raise Unsupported(f'quote_into_iter on {d!r}')
    return tup(itr, Agg('HasIterator', []))


@model(r'HasIterator.*(bitor|check)$')
def m_hasiter(it, n, a):
    return Agg('HasIterator', [])


@model(r'__private::RepInterp$')
def m_repinterp(it, n, a):
    return Agg('RepInterp', [a[0]])


@model(r'TokenStream as ToString>::to_string$')
def m_ts_to_string(it, n, a):
    return TokString(list(arg0(a).toks), via=('to_string',))


# =========================================================================================== iterators
class IterBase:
    def nxt(self, it):
        raise NotImplementedError

    def drain(self, it):
        out = []
        while True:
            x = self.nxt(it)
            if x is STOP:
                return out
            out.append(x)


STOP = object()


class SliceIter(IterBase):
    """yields references into the container"""

    def __init__(self, container):
        self.c, self.i = container, 0
        self.cell = Cell(container)

    def nxt(self, it):
        items = self.c.items if isinstance(self.c, VecV) else self.c
        if self.i >= len(items):
            return STOP
        self.i += 1
        return Ref(self.cell, (self.i - 1,))


class ArenaIter(IterBase):
    """naga Arena::iter / UniqueArena::iter: (Handle, &T)"""

    def __init__(self, arena):
        self.inner = SliceIter(arena.fields[0])

    def nxt(self, it):
        r = self.inner.nxt(it)
        if r is STOP:
            return STOP
        return tup(self.inner.i - 1, r)


class ListIter(IterBase):
    def __init__(self, items):
        self.items, self.i = list(items), 0

    def nxt(self, it):
        if self.i >= len(self.items):
            return STOP
        self.i += 1
        return self.items[self.i - 1]


class RangeIter(IterBase):
    def __init__(self, lo, hi):
        self.lo, self.hi = lo, hi

    def nxt(self, it):
        if it.truth(self.lo < self.hi if not (is_sym(self.lo) or is_sym(self.hi)) else z3.ULT(self.lo, self.hi)):
            v = self.lo
            self.lo = self.lo + 1
            return v
        return STOP


class MapIter(IterBase):
    def __init__(self, src, f):
        self.src, self.f = src, f

    def nxt(self, it):
        x = self.src.nxt(it)
        return STOP if x is STOP else it.call_closure(self.f, [x])


class FilterIter(IterBase):
    def __init__(self, src, f):
        self.src, self.f = src, f

    def nxt(self, it):
        while True:
            x = self.src.nxt(it)
            if x is STOP:
                return STOP
            if it.truth(it.call_closure(self.f, [mkref(x)])):
                return x


class FilterMapIter(IterBase):
    def __init__(self, src, f):
        self.src, self.f = src, f

    def nxt(self, it):
        while True:
            x = self.src.nxt(it)
            if x is STOP:
                return STOP
            r = it.call_closure(self.f, [x])
            if opt_is_some(it, r):
                return r.fields[0] if not isinstance(r.fields, dict) else r.fields['Some'][0]


class EnumerateIter(IterBase):
    def __init__(self, src):
        self.src, self.i = src, 0

    def nxt(self, it):
        x = self.src.nxt(it)
        if x is STOP:
            return STOP
        self.i += 1
        return tup(self.i - 1, x)


class ClonedIter(IterBase):
    def __init__(self, src):
        self.src = src

    def nxt(self, it):
        x = self.src.nxt(it)
        return STOP if x is STOP else clone_val(deref1(x))


class FlatMapIter(IterBase):
    def __init__(self, src, f):
        self.src, self.f, self.cur = src, f, None

    def nxt(self, it):
        while True:
            if self.cur is not None:
                x = self.cur.nxt(it)
                if x is not STOP:
                    return x
                self.cur = None
            x = self.src.nxt(it)
            if x is STOP:
                return STOP
            self.cur = into_iter(it.call_closure(self.f, [x]))


def opt_is_some(it, o):
    d = o.disc
    if is_sym(d):
        return it.truth(d == 1)
    return d == 1


def into_iter(v, it=None):
    if isinstance(v, IterBase):
        return v
    if isinstance(deref(v), HashSetV) and it is not None:
        return hash_order_iter(it, deref(v), 'into_iter')
    if isinstance(deref(v), BTreeV):
        m = deref(v)
        if isinstance(v, Ref):
            return ListIter([tup(Ref(KeyCell(e)), Ref(SlotCell(e))) for e in m.entries])
        return ListIter([tup(e[0], e[1]) for e in m.entries])
    if isinstance(v, VecV):
        return ListIter(v.items)          # by value
    if isinstance(v, Ref):
        d = deref(v)
        if isinstance(d, (VecV, list)):
            return SliceIter(d)
        if isinstance(d, IterBase):
            return d
    if isinstance(v, list):
        return SliceIter(v)
    dv = deref(v) if isinstance(v, Ref) else v
    if isinstance(dv, Agg) and dv.path == 'Option' and it is not None:
        # Option<T> as an iterator of zero or one element
        present, payload = opt_fork(it, dv)
        return ListIter([payload] if present else [])
    raise Unsupported(f'into_iter of {v!r}')


@model(r'slice::<impl \[.*\]>::iter$')
def m_slice_iter(it, n, a):
    return SliceIter(deref(a[0]))


@model(r'as IntoIterator>::into_iter$')
def m_into_iter(it, n, a):
    return into_iter(a[0], it)


@model(r'^(Arena|UniqueArena)::<.*>::iter$')
def m_arena_iter(it, n, a):
    return ArenaIter(arg0(a))


@model(r'^(Arena|UniqueArena)::<.*>::(is_empty)$')
def m_arena_is_empty(it, n, a):
    return len(arg0(a).fields[0].items) == 0


@model(r'^(Arena|UniqueArena)::<.*>::(len)$')
def m_arena_len(it, n, a):
    return len(arg0(a).fields[0].items)


@model(r'as Iterator>::next$')
def m_iter_next(it, n, a):
    x = arg0(a).nxt(it)
    return none() if x is STOP else some(x)


@model(r'as Iterator>::map::<')
def m_iter_map(it, n, a):
    return MapIter(a[0], a[1])


@model(r'as Iterator>::filter::<')
def m_iter_filter(it, n, a):
    return FilterIter(a[0], a[1])


@model(r'as Iterator>::filter_map::<')
def m_iter_filter_map(it, n, a):
    return FilterMapIter(a[0], a[1])


@model(r'as Iterator>::flat_map::<')
def m_iter_flat_map(it, n, a):
    return FlatMapIter(a[0], a[1])


@model(r'as Iterator>::enumerate$')
def m_iter_enumerate(it, n, a):
    return EnumerateIter(a[0])


@model(r'as Iterator>::cloned::<')
def m_iter_cloned(it, n, a):
    return ClonedIter(a[0])


@model(r'as Iterator>::copied::<')
def m_iter_copied(it, n, a):
    return ClonedIter(a[0])


@model(r'as Iterator>::collect::<Vec<')
def m_iter_collect_vec(it, n, a):
    return VecV(a[0].drain(it))


@model(r'as Iterator>::collect::<wgpu::ShaderStages>$')
def m_iter_collect_flags(it, n, a):
    bits = 0
    for x in a[0].drain(it):
        bits = bits | flag_bits(x)
    if is_sym(bits):
        bits = z3.simplify(bits)
    return mkflags('wgpu::ShaderStages', bits)


@model(r'as Iterator>::count$')
def m_iter_count(it, n, a):
    return len(a[0].drain(it))


@model(r'as Iterator>::any::<')
def m_iter_any(it, n, a):
    src = deref(a[0])
    while True:
        x = src.nxt(it)
        if x is STOP:
            return False
        if it.truth(it.call_closure(a[1], [x])):
            return True


@model(r'as Iterator>::all::<')
def m_iter_all(it, n, a):
    src = deref(a[0])
    while True:
        x = src.nxt(it)
        if x is STOP:
            return True
        if not it.truth(it.call_closure(a[1], [x])):
            return False


@model(r'as Iterator>::find::<')
def m_iter_find(it, n, a):
    src = deref(a[0])
    while True:
        x = src.nxt(it)
        if x is STOP:
            return none()
        if it.truth(it.call_closure(a[1], [mkref(x)])):
            return some(x)


@model(r'as Iterator>::position::<')
def m_iter_position(it, n, a):
    src, i = deref(a[0]), 0
    while True:
        x = src.nxt(it)
        if x is STOP:
            return none()
        if it.truth(it.call_closure(a[1], [x])):
            return some(i)
        i += 1


@model(r'as Iterator>::(max|min)$')
def m_iter_max(it, n, a):
    xs = [deref(x) for x in a[0].drain(it)]
    if not xs:
        return none()
    ismax = n.endswith('max')
    best = xs[0]
    for x in xs[1:]:
        if is_sym(x) or is_sym(best):
            w = x.size() if is_sym(x) else best.size()
            xb = x if is_sym(x) else z3.BitVecVal(x, w)
            bb = best if is_sym(best) else z3.BitVecVal(best, w)
            c = z3.UGE(xb, bb) if ismax else z3.ULT(xb, bb)
            best = z3.If(c, xb, bb)
        else:
            best = max(best, x) if ismax else min(best, x)
    return some(best)


@model(r'as Iterator>::eq::<std::ops::Range<usize>>$')
def m_iter_eq_range(it, n, a):
    xs = a[0].drain(it)
    r = a[1]
    lo, hi = r.fields
    if is_sym(lo) or is_sym(hi):
        raise Unsupported('Iterator::eq with symbolic range')
    want = list(range(lo, hi))
    if len(xs) != len(want):
        return False
    # Iterator::eq short-circuits left to right
    for x, w in zip(xs, want):
        if not it.truth(x == w if not is_sym(x) else x == z3.BitVecVal(w, x.size())):
            return False
    return True


@model(r'array::<impl \[.*\]>::map::<')
def m_array_map(it, n, a):
    return [it.call_closure(a[1], [x]) for x in a[0]]


# =========================================================================================== Option / Result
def opt_fork(it, o):
    """returns (is_some, payload)"""
    o = deref(o) if isinstance(o, Ref) else o
    if is_sym(o.disc):
        s = it.truth(o.disc == 1)
    else:
        s = o.disc == 1
    if not s:
        return False, None
    return True, (o.fields['Some'][0] if isinstance(o.fields, dict) else o.fields[0])


@model(r'^Option::<.*>::as_ref$')
def m_opt_as_ref(it, n, a):
    r = a[0]
    s, _ = opt_fork(it, r)
    if not s:
        return none()
    o = deref(r)
    if isinstance(o.fields, dict):
        return some(Ref(Cell(o), ('Some', 0)))
    return some(Ref(r.cell, r.path + (0,)) if isinstance(r, Ref) else Ref(Cell(o), (0,)))


@model(r'^Option::<.*>::as_mut$')
def m_opt_as_mut(it, n, a):
    return m_opt_as_ref(it, n, a)


@model(r'^Option::<.*>::(unwrap|expect)$')
def m_opt_unwrap(it, n, a):
    s, v = opt_fork(it, a[0])
    if not s:
        raise Panic('called `Option::unwrap()` on a `None` value')
    return v


@model(r'^Option::<.*>::unwrap_or$')
def m_opt_unwrap_or(it, n, a):
    s, v = opt_fork(it, a[0])
    return v if s else a[1]




@model(r'^Option::<.*>::unwrap_or_else::<')
def m_opt_unwrap_or_else(it, n, a):
    s, v = opt_fork(it, a[0])
    return v if s else it.call_closure(a[1], [])


@model(r'^Option::<.*>::map::<')
def m_opt_map(it, n, a):
    s, v = opt_fork(it, a[0])
    return some(it.call_closure(a[1], [v])) if s else none()


@model(r'^Option::<.*>::and_then::<')
def m_opt_and_then(it, n, a):
    s, v = opt_fork(it, a[0])
    return it.call_closure(a[1], [v]) if s else none()


@model(r'^Option::<.*>::(copied|cloned)$')
def m_opt_copied(it, n, a):
    s, v = opt_fork(it, a[0])
    return some(clone_val(deref1(v))) if s else none()


@model(r'^Option::<.*>::is_some$')
def m_opt_is_some(it, n, a):
    o = deref(a[0])
    return (o.disc == 1)


@model(r'^Option::<.*>::is_none$')
def m_opt_is_none(it, n, a):
    o = deref(a[0])
    return (o.disc == 0)


@model(r'^Option::<\(.*\)>::unzip')
def m_opt_unzip(it, n, a):
    s, v = opt_fork(it, a[0])
    if not s:
        return tup(none(), none())
    return tup(some(v.fields[0]), some(v.fields[1]))


@model(r'^Option::<.*>::ok_or')
def m_opt_ok_or(it, n, a):
    s, v = opt_fork(it, a[0])
    return ok(v) if s else err(a[1])


@model(r'^<Option<.*> as (std::ops::)?Try>::branch$')
def m_opt_branch(it, n, a):
    s, v = opt_fork(it, a[0])
    if s:
        return Agg('ControlFlow', [v], variant='Continue', disc=0)
    return Agg('ControlFlow', [none()], variant='Break', disc=1)


@model(r'^<Option<.*> as FromResidual<.*>>::from_residual$')
def m_opt_from_residual(it, n, a):
    return none()


@model(r'^<(std::result::)?Result<.*> as (std::ops::)?Try>::branch$')
def m_res_branch(it, n, a):
    r = a[0]
    if is_sym(r.disc):
        isok = it.truth(r.disc == 0)
    else:
        isok = r.disc == 0
    if isok:
        return Agg('ControlFlow', [r.fields['Ok'][0] if isinstance(r.fields, dict) else r.fields[0]], variant='Continue', disc=0)
    e = r.fields['Err'][0] if isinstance(r.fields, dict) else r.fields[0]
    return Agg('ControlFlow', [err(e)], variant='Break', disc=1)


@model(r'^<(std::result::)?Result<.*> as FromResidual<.*>>::from_residual$')
def m_res_from_residual(it, n, a):
    return err(a[0].fields[0])


def res_fork(it, r):
    if is_sym(r.disc):
        isok = it.truth(r.disc == 0)
    else:
        isok = r.disc == 0
    if isinstance(r.fields, dict):
        return isok, (r.fields['Ok'][0] if isok else r.fields['Err'][0])
    return isok, r.fields[0]


@model(r'^(std::result::)?Result::<.*>::map_err::<')
def m_res_map_err(it, n, a):
    isok, v = res_fork(it, a[0])
    return ok(v) if isok else err(it.call_closure(a[1], [v]))


@model(r'^(std::result::)?Result::<.*>::map::<')
def m_res_map(it, n, a):
    isok, v = res_fork(it, a[0])
    return ok(it.call_closure(a[1], [v])) if isok else err(v)


@model(r'^(std::result::)?Result::<.*>::(unwrap|expect)$')
def m_res_unwrap(it, n, a):
    isok, v = res_fork(it, a[0])
    if not isok:
        raise Panic(f'called `Result::unwrap()` on an `Err` value: {v!r}')
    return v


@model(r'^(std::result::)?Result::<.*>::ok$')
def m_res_ok(it, n, a):
    isok, v = res_fork(it, a[0])
    return some(v) if isok else none()


@model(r'^(std::result::)?Result::<.*>::is_ok$')
def m_res_is_ok(it, n, a):
    return deref(a[0]).disc == 0


@model(r'^(std::result::)?Result::<.*>::is_err$')
def m_res_is_err(it, n, a):
    return deref(a[0]).disc == 1


@model(r'^(std::result::)?Result::<.*>::unwrap_or_default$')
def m_res_unwrap_or_default(it, n, a):
    isok, v = res_fork(it, a[0])
    if isok:
        return v
    if 'String' in n:
        return ''
    raise Unsupported(n)


# =========================================================================================== Vec / slices / strings
@model(r'^Vec::<.*>::new$|^<Vec<.*> as (std::default::)?Default>::default$')
def m_vec_new(it, n, a):
    return VecV()


@model(r'^Vec::<.*>::with_capacity$')
def m_vec_with_capacity(it, n, a):
    return VecV()


@model(r'^Vec::<.*>::push$')
def m_vec_push(it, n, a):
    arg0(a).items.append(a[1])
    return unit()


@model(r'^Vec::<.*>::is_empty$')
def m_vec_is_empty(it, n, a):
    return len(arg0(a).items) == 0


@model(r'^Vec::<.*>::len$')
def m_vec_len(it, n, a):
    return len(arg0(a).items)


@model(r'^<Vec<.*> as (std::ops::)?(Deref|DerefMut)>::(deref|deref_mut)$')
def m_vec_deref(it, n, a):
    return arg0(a).items


@model(r'slice::<impl \[.*\]>::(len)$')
def m_slice_len(it, n, a):
    return len(arg0(a))


@model(r'slice::<impl \[.*\]>::(is_empty)$')
def m_slice_is_empty(it, n, a):
    return len(arg0(a)) == 0


@model(r'slice::<impl \[.*\]>::split_first$')
def m_split_first(it, n, a):
    items = arg0(a)
    if not items:
        return none()
    return some(tup(Ref(Cell(items), (0,)), items[1:]))


@model(r'slice::<impl \[.*\]>::(first|last)$')
def m_slice_first(it, n, a):
    items = arg0(a)
    if not items:
        return none()
    return some(Ref(Cell(items), (0 if n.endswith('first') else len(items) - 1,)))


def str_key(it, s):
    if isinstance(s, str):
        return s
    raise Unsupported(f'ordering of a non-concrete string {s!r}')


@model(r'^Vec::<.*>::dedup_by_key::<')
def m_dedup_by_key(it, n, a):
    v = arg0(a)
    if not v.items:
        return unit()
    out = [v.items[0]]
    for x in v.items[1:]:
        # same_bucket(next, last kept): removes `next` when the keys are equal
        k1 = it.call_closure(a[1], [mkref(x)])
        k2 = it.call_closure(a[1], [mkref(out[-1])])
        if not str_eq(it, k1, k2):
            out.append(x)
    v.items[:] = out
    return unit()


def str_eq(it, x, y):
    x, y = deref(x), deref(y)
    if isinstance(x, str) and isinstance(y, str):
        return x == y
    if isinstance(x, SymStr) and isinstance(y, SymStr) and x == y:
        return True
    if isinstance(x, (str, SymStr)) and isinstance(y, (str, SymStr)):
        # an abstract string against another string: a decision of the solver, asked once per pair on a path and named after the question
        a_, b_ = (x, y) if isinstance(x, SymStr) else (y, x)
        key = ('eq', repr(a_), repr(b_))
        if key not in it.strpred:
            it.strpred[key] = it.fresh(f'strpred|eq|{a_!r}|{b_!r}|', 'bool')
        return it.truth(it.strpred[key])
    raise Unsupported(f'equality of abstract strings {x!r} / {y!r}')


@model(r'^<String as PartialEq>::eq$|<str as PartialEq>::eq$|<&str as PartialEq.*>::eq$')
def m_string_eq(it, n, a):
    return str_eq(it, a[0], a[1])


@model(r'^<(String|Option<String>) as Clone>::clone$')
def m_string_clone(it, n, a):
    return clone_val(arg0(a))


@model(r'^<String as (std::ops::)?Deref>::deref$|String::as_str$|<String as AsRef<str>>::as_ref$')
def m_string_deref(it, n, a):
    return arg0(a)


@model(r'^<(String|str) as ToString>::to_string$|<str as ToOwned>::to_owned$|<String as From<&str>>::from$')
def m_string_to_string(it, n, a):
    return arg0(a)


@model(r'String::as_bytes$|str>::as_bytes$')
def m_as_bytes(it, n, a):
    return Agg('Bytes', [arg0(a)])


@model(r'str>::to_uppercase$')
def m_to_uppercase(it, n, a):
    s = arg0(a)
    if isinstance(s, str):
        return s.upper()
    if isinstance(s, SymStr):
        return SymStr([('sym', f'to_uppercase({s!r})')])
    raise Unsupported('to_uppercase of abstract string')


@model(r'^<str as CaseExt>::to_snake$')
def m_to_snake(it, n, a):
    s = arg0(a)
    if not isinstance(s, str):
        raise Unsupported('to_snake of abstract string')
    # transcription of case-1.0.0 src/lib.rs to_snake
    out = ''
    first = True
    for c in s:
        if 'A' <= c <= 'Z':            # is_ascii_uppercase: non-ASCII letters are copied unchanged
            if not first:
                out += '_'
            out += c.lower()
        else:
            out += c
        first = False
    return out


def fresh_str(it, what):
    it.fresh_n += 1
    return SymStr([('sym', f'{what}!{it.fresh_n}')])


@model(r'str>::(trim|trim_start|trim_end|to_lowercase|to_ascii_lowercase|to_ascii_uppercase|replace|replacen|trim_matches)\b')
def m_str_alter(it, n, a):
    """text-altering string operations: the result is some other string (fresh unknown) unless the input is concrete"""
    s = arg0(a)
    op = re.search(r'str>::(\w+)', n).group(1)
    if isinstance(s, str) and op in ('trim', 'trim_start', 'trim_end', 'to_lowercase', 'to_ascii_lowercase', 'to_ascii_uppercase'):
        asc = lambda f: ''.join(f(ch) if ord(ch) < 128 else ch for ch in s)
        return {'trim': s.strip(), 'trim_start': s.lstrip(), 'trim_end': s.rstrip(), 'to_lowercase': s.lower(),
                'to_ascii_lowercase': asc(str.lower), 'to_ascii_uppercase': asc(str.upper)}[op]
    if isinstance(s, str) and op == 'replace' and isinstance(deref(a[1]), str) and isinstance(deref(a[2]), str):
        return s.replace(deref(a[1]), deref(a[2]))
    return fresh_str(it, op)


@model(r'^<u16 as ToString>::to_string$|<u32 as ToString>::to_string$|<usize as ToString>::to_string$')
def m_int_to_string(it, n, a):
    v = arg0(a)
    return str(v) if isinstance(v, int) else SymStr([('dec', v)])


@model(r'^NonZero::<u32>::get$')
def m_nonzero_get(it, n, a):
    return a[0]


@model(r'<.* as Clone>::clone$')
def m_clone(it, n, a):
    return clone_val(arg0(a))


@model(r'^std::mem::(take|replace)')
def m_mem(it, n, a):
    raise Unsupported(n)


# =========================================================================================== fmt
@model(r'fmt::rt::Argument::<.*>::new_(debug|display)::<')
def m_arg_new(it, n, a):
    return Agg('fmt::Argument', [deref(a[0]), 'debug' if 'new_debug' in n else 'display'])


@model(r'^Arguments::<.*>::new::<')
def m_args_new(it, n, a):
    return Agg('fmt::Arguments', [deref(a[0]), deref(a[1])])


@model(r'^Arguments::<.*>::from_str$')
def m_args_from_str(it, n, a):
    return Agg('fmt::Arguments', [a[0], None])


def render_arg(it, v, kind):
    v = deref(v)
    if isinstance(v, (str, SymStr)):
        if kind == 'debug':
            raise Unsupported('Debug of a string')
        return v
    if isinstance(v, bool):
        return 'true' if v else 'false'
    if isinstance(v, int):
        return str(v)
    if is_sym(v):
        if z3.is_bool(v):
            return 'true' if it.truth(v) else 'false'
        return SymStr([('dec', v)])
    if isinstance(v, Tok) and v.k == 'lit' and v.v[0] == 'usize_unsuffixed':
        x = v.v[1]
        return str(x) if isinstance(x, int) else SymStr([('dec', x)])
    if isinstance(v, Agg) and v.path in ('StorageFormat', 'VertexFormat', 'ImageDimension', 'ScalarKind', 'VectorSize'):
        vs = it.env['schema']['enums'][v.path]
        d = v.disc
        if is_sym(d):
            d = it.concretize(d, [x['disc'] for x in vs])
        return next(x['name'] for x in vs if x['disc'] == d)
    if isinstance(v, Agg) and v.path == 'TypeInner':
        # `{inner:?}` only occurs in panic messages; the message text is not part of any property
        return '<TypeInner>'
    if isinstance(v, Agg) and v.path == 'CreateModuleError':
        return f'<{v.variant}>'
    if isinstance(v, Agg) and v.path == 'Cow':
        return render_arg(it, v.fields[0], kind)
    if isinstance(v, Opaque):
        return f'<{v.what}>'
    raise Unsupported(f'format argument {v!r} ({kind})')


def format_args(it, fa):
    tmpl, args = fa.fields
    if args is None:
        return tmpl
    out, i, argi = [], 0, 0
    while True:
        b = tmpl[i]
        if b == 0:
            break
        if b < 0x80:
            out.append(tmpl[i + 1:i + 1 + b].decode())
            i += 1 + b
        elif b == 0x80:
            ln = tmpl[i + 1] | (tmpl[i + 2] << 8)
            out.append(tmpl[i + 3:i + 3 + ln].decode())
            i += 3 + ln
        elif b & 0xC0 == 0xC0:
            i += 1
            if b & 1:
                raise Unsupported('format flags')
            if b & 2 or b & 4:
                raise Unsupported('format width/precision')
            if b & 8:
                argi = tmpl[i] | (tmpl[i + 1] << 8)
                i += 2
            v, kind = args[argi].fields
            argi += 1
            out.append(render_arg(it, v, kind))
        else:
            raise Unsupported('format template byte %x' % b)
    return sconcat(out)


@model(r'^format$|^alloc::fmt::format$|^std::fmt::format$')
def m_format(it, n, a):
    return format_args(it, a[0])


@model(r'^must_use')
def m_must_use(it, n, a):
    return a[0]


@model(r'^panic_fmt$|^core::panicking::panic_fmt$')
def m_panic_fmt(it, n, a):
    raise Panic(str(format_args(it, a[0])))


@model(r'^panic$|^core::panicking::panic$|panic_explicit$|^begin_panic')
def m_panic(it, n, a):
    raise Panic(str(a[0]) if a else n)


@model(r'^std::io::_eprint$|^std::io::_print$')
def m_eprint(it, n, a):
    it.env.setdefault('stderr', []).append(format_args(it, a[0]))
    return unit()


# =========================================================================================== collections
def key_cmp(it, a, b):
    """-1 / 0 / 1 with forking"""
    a, b = deref(a), deref(b)
    if isinstance(a, Agg) and isinstance(b, Agg) and a.path == 'Option' and b.path == 'Option':
        sa, va = opt_fork(it, a)
        sb, vb = opt_fork(it, b)
        if not sa or not sb:
            return (1 if sa else 0) - (1 if sb else 0)
        return key_cmp(it, va, vb)
    if isinstance(a, Agg) and isinstance(b, Agg) and a.path == '()' and b.path == '()':
        for x, y in zip(a.fields, b.fields):
            c = key_cmp(it, x, y)
            if c:
                return c
        return 0
    if isinstance(a, str) and isinstance(b, str):
        ab, bb = a.encode(), b.encode()
        return -1 if ab < bb else (0 if ab == bb else 1)
    if isinstance(a, int) and isinstance(b, int):
        return -1 if a < b else (0 if a == b else 1)
    if is_sym(a) or is_sym(b):
        w = a.size() if is_sym(a) else b.size()
        az = a if is_sym(a) else z3.BitVecVal(a, w)
        bz = b if is_sym(b) else z3.BitVecVal(b, w)
        return it.decide([z3.ULT(az, bz), az == bz, z3.UGT(az, bz)]) - 1
    raise Unsupported(f'ordering of {a!r} and {b!r}')


def bt_find(it, m, k):
    """(index, found): position of key k in the sorted entry list"""
    for i, e in enumerate(m.entries):
        c = key_cmp(it, k, e[0])
        if c == 0:
            return i, True
        if c < 0:
            return i, False
    return len(m.entries), False


@model(r'^BTreeMap::<.*>::new$|^<(std::collections::)?BTreeMap<.*> as (std::default::)?Default>::default$')
def m_bt_new(it, n, a):
    return BTreeV()


@model(r'^BTreeMap::<.*>::entry$')
def m_bt_entry(it, n, a):
    m = arg0(a)
    i, found = bt_find(it, m, a[1])
    return Agg('btree::Entry', [m, i, found, a[1]])


@model(r'btree_map::Entry::<.*>::or_insert$')
def m_bt_or_insert(it, n, a):
    m, i, found, k = a[0].fields
    if not found:
        m.entries.insert(i, [k, a[1]])
    return Ref(SlotCell(m.entries[i]))


@model(r'btree_map::Entry::<.*>::or_insert_with::<')
def m_bt_or_insert_with(it, n, a):
    m, i, found, k = a[0].fields
    if not found:
        m.entries.insert(i, [k, it.call_closure(a[1], [])])
    return Ref(SlotCell(m.entries[i]))


@model(r'btree_map::Entry::<.*>::or_default$')
def m_bt_or_default(it, n, a):
    raise Unsupported(n)


@model(r'^BTreeMap::<.*>::insert$')
def m_bt_insert(it, n, a):
    m = arg0(a)
    i, found = bt_find(it, m, a[1])
    if found:
        old = m.entries[i][1]
        m.entries[i][1] = a[2]
        return some(old)
    m.entries.insert(i, [a[1], a[2]])
    return none()


@model(r'^BTreeMap::<.*>::get::<')
def m_bt_get(it, n, a):
    m = arg0(a)
    i, found = bt_find(it, m, a[1])
    return some(Ref(SlotCell(m.entries[i]))) if found else none()


@model(r'^BTreeMap::<.*>::contains_key::<')
def m_bt_contains(it, n, a):
    m = arg0(a)
    return bt_find(it, m, a[1])[1]


@model(r'^BTreeMap::<.*>::len$')
def m_bt_len(it, n, a):
    return len(arg0(a).entries)


@model(r'^BTreeMap::<.*>::is_empty$')
def m_bt_is_empty(it, n, a):
    return len(arg0(a).entries) == 0


@model(r'^BTreeMap::<.*>::keys$')
def m_bt_keys(it, n, a):
    return ListIter([Ref(KeyCell(e)) for e in arg0(a).entries])


@model(r'^BTreeMap::<.*>::values$')
def m_bt_values(it, n, a):
    return ListIter([Ref(SlotCell(e)) for e in arg0(a).entries])


@model(r'^BTreeMap::<.*>::iter$')
def m_bt_iter(it, n, a):
    return ListIter([tup(Ref(KeyCell(e)), Ref(SlotCell(e))) for e in arg0(a).entries])


def h_eq(x, y):
    x, y = deref(x), deref(y)
    if is_sym(x) or is_sym(y):
        w = x.size() if is_sym(x) else y.size()
        xz = x if is_sym(x) else z3.BitVecVal(x, w)
        yz = y if is_sym(y) else z3.BitVecVal(y, w)
        return xz == yz
    return x == y


@model(r'^HashSet::<.*>::(new|with_capacity)$|^<(std::collections::)?HashSet<.*> as (std::default::)?Default>::default$')
def m_hs_new(it, n, a):
    return HashSetV()


def hs_contains(s, x, it=None):
    xv = deref(x)
    if it is not None and (isinstance(xv, (Agg, str, SymStr, VecV)) or any(isinstance(e, (Agg, str, SymStr, VecV)) for e in s.items)):
        # members with structure (Option<&str>, tuples, strings ...): derived Eq, decided member by member (forks where symbolic)
        return any(deep_eq(it, xv, e) for e in s.items)
    cs = [h_eq(x, e) for e in s.items]
    if any(c is True for c in cs):
        return True
    cs = [c for c in cs if c is not False]
    if not cs:
        return False
    return z3.Or(cs) if len(cs) > 1 else cs[0]


@model(r'^HashSet::<.*>::insert$')
def m_hs_insert(it, n, a):
    s = arg0(a)
    had = hs_contains(s, a[1], it)
    if had is True:
        return False
    s.items.append(deref(a[1]))
    return True if had is False else z3.Not(had)


@model(r'^HashSet::<.*>::contains::<')
def m_hs_contains(it, n, a):
    return hs_contains(arg0(a), a[1], it)


def hs_distinct(it, s):
    """members of the set as a duplicate-free list: symbolic members that may coincide are resolved by forking on the equalities"""
    items = []
    for x in s.items:
        dup = False
        for y in items:
            if is_sym(x) or is_sym(y):
                if it.truth(h_eq(x, y)):
                    dup = True
                    break
            elif x == y:
                dup = True
                break
        if not dup:
            items.append(x)
    return items


def hash_order_iter(it, s, what):
    """iteration order of a hash set is unspecified: every permutation is possible (chosen by fresh decisions)"""
    items = hs_distinct(it, s)
    out = []
    if it.env.get('hash_orders') == 'two' and len(items) > 1:
        # harness option: insertion order or its reverse only.  Sound for a property that is not about ordering when C18 (output
        # independent of hash order, decided with EVERY permutation) holds: any single order is then representative.
        if it.truth(it.fresh('hash_reversed', 'bool')):
            items.reverse()
        out, items = items, []
    elif len(items) > 4:
        # beyond 4 members the n! orders are not enumerated: every rotation and the reverse (n + 1 orders) - a stated bound
        pick = it.fresh('hash_pick_rot', 8)
        i = it.decide([pick == j for j in range(len(items) + 1)] + [z3.UGT(pick, len(items))])
        if i >= len(items):
            items.reverse()
        else:
            items = items[i:] + items[:i]
        out, items = items, []
    while items:
        if len(items) > 1:
            pick = it.fresh('hash_pick', 8)
            i = it.decide([pick == j for j in range(len(items))] + [z3.UGE(pick, len(items))])
            if i >= len(items):
                i = 0
        else:
            i = 0
        out.append(items.pop(i))
    it.env.setdefault('hash_iterated', []).append(what)
    return ListIter([mkref(x) for x in out])


@model(r'^HashSet::<.*>::(iter|drain)$')
def m_hs_iter(it, n, a):
    return hash_order_iter(it, arg0(a), n)


@model(r'^HashSet::<.*>::len$')
def m_hs_len(it, n, a):
    return len(hs_distinct(it, arg0(a)))


# ---- impure reads: modelled as fresh unknowns and recorded, so that a dependence on them becomes a counterexample
def impure(it, what, value):
    it.env.setdefault('impure_reads', []).append(what)
    return value


@model(r'^std::env::(var|var_os)(::<.*>)?$|^env::(var|var_os)(::<.*>)?$')
def m_env_var(it, n, a):
    name = deref(a[0])
    present = it.truth(it.fresh('env_var_present', 'bool'))
    it.fresh_n += 1
    v = SymStr([('sym', f'env:{name}!{it.fresh_n}')])
    return impure(it, f'env::var({name!r})', ok(v) if ('var_os' not in n and present) else (some(v) if present and 'var_os' in n else (err(Opaque('VarError')) if 'var_os' not in n else none())))


@model(r'^std::env::current_dir$|^env::current_dir$')
def m_current_dir(it, n, a):
    it.fresh_n += 1
    return impure(it, 'env::current_dir()', ok(SymStr([('sym', f'cwd!{it.fresh_n}')])))


@model(r'SystemTime::now$|Instant::now$|^std::process::id$|^process::id$|RandomState::new$|thread_rng$|^rand::random')
def m_clock(it, n, a):
    return impure(it, n, it.fresh('nondet', 64))


# =========================================================================================== naga / wgpu accessors
def handle_index(it, arena, h, what):
    items = arena.fields[0].items
    h = deref(h)
    if is_sym(h):
        i = it.concretize(h, list(range(len(items))))
        if i is None:
            raise Panic(f'{what} handle out of range')
        return i
    if not (0 <= h < len(items)):
        raise Panic(f'{what} handle out of range')
    return h


@model(r'^<(Arena|UniqueArena)<.*> as (std::ops::)?Index<.*>>::index$')
def m_arena_index(it, n, a):
    arena = arg0(a)
    i = handle_index(it, arena, a[1], n)
    return Ref(Cell(arena.fields[0]), (i,))


@model(r'^(std::vec::|alloc::vec::)?from_elem::<')
def m_vec_from_elem(it, n, a):
    """vec![elem; n]"""
    cnt = conc_int(it, a[1], 'vec![x; n] length')
    return VecV([clone_val(deref(a[0])) for _ in range(cnt)])


@model(r'^<&?(mut )?\{C\} as (std::ops::)?Fn(Mut|Once)?<.*>>::call(_mut|_once)?$')
def m_closure_call(it, n, a):
    args = deref(a[1])
    clo = a[0]
    if deref(clo) is None:
        # a closure without captures is zero-sized: MIR never assigns the local, the callee name says which closure it is
        m_ = re.search(r'(\{closure@[^}]*\})', n)
        if not m_:
            raise Unsupported('call of an uninitialised closure value: ' + n)
        clo = Closure(m_.group(1), [])
    return it.call_closure(clo, list(args.fields) if isinstance(args, Agg) else [args])


@model(r'^<&?(u8|u16|u32|u64|usize) as (std::ops::)?(Add|Sub|Mul|Div|Rem)<&?(u8|u16|u32|u64|usize)>>::(add|sub|mul|div|rem)$')
def m_int_trait_ops(it, n, a):
    """arithmetic through the operator traits (operands by reference): overflow / division by zero panic as in a debug build"""
    ty = re.search(r'<&?(u8|u16|u32|u64|usize) as', n).group(1)
    op = re.search(r'::(add|sub|mul|div|rem)$', n).group(1)
    w = {'u8': 8, 'u16': 16, 'u32': 32, 'u64': 64, 'usize': 64}[ty]
    x, y = deref(a[0]), deref(a[1])
    if not (is_sym(x) or is_sym(y)):
        if op in ('div', 'rem') and y == 0:
            raise Panic('attempt to divide by zero')
        r = {'add': lambda: x + y, 'sub': lambda: x - y, 'mul': lambda: x * y, 'div': lambda: x // y, 'rem': lambda: x % y}[op]()
        if not (0 <= r < (1 << w)):
            raise Panic(f'attempt to {op} with overflow')
        return r
    xz = x if is_sym(x) else z3.BitVecVal(x, w)
    yz = y if is_sym(y) else z3.BitVecVal(y, w)
    if op in ('div', 'rem'):
        if it.truth(yz == 0):
            raise Panic('attempt to divide by zero')
        return z3.UDiv(xz, yz) if op == 'div' else z3.URem(xz, yz)
    wide = {'add': z3.ZeroExt(w, xz) + z3.ZeroExt(w, yz), 'sub': z3.ZeroExt(w, xz) - z3.ZeroExt(w, yz), 'mul': z3.ZeroExt(w, xz) * z3.ZeroExt(w, yz)}[op]
    if it.truth(z3.UGT(wide, z3.BitVecVal((1 << w) - 1, 2 * w))):
        raise Panic(f'attempt to {op} with overflow')
    return z3.Extract(w - 1, 0, wide)


@model(r'^<(u8|u16|u32|usize|u64|i8|i16|i32) as (std::convert::)?Into<(u16|u32|u64|usize|i32|i64|i128|u128)>>::into$|^<(u16|u32|u64|usize|i32|i64|i128|u128) as (std::convert::)?From<(u8|u16|u32|usize|u64|i8|i16|i32)>>::from$')
def m_int_widen(it, n, a):
    """lossless widening of an unsigned integer"""
    m_ = re.search(r'Into<(\w+)>|^<(\w+) as', n)
    to = m_.group(1) or m_.group(2)
    w = {'u16': 16, 'u32': 32, 'u64': 64, 'usize': 64, 'i32': 32, 'i64': 64, 'i128': 128, 'u128': 128}[to]
    src = re.search(r'^<(\w+) as (std::convert::)?Into', n)
    src = src.group(1) if src else re.search(r'From<(\w+)>', n).group(1)
    x = deref(a[0])
    if is_sym(x):
        ext = z3.SignExt if src.startswith('i') else z3.ZeroExt
        return ext(w - x.size(), x) if x.size() < w else x
    return x


@model(r'^<(u8|u16|u32|usize|u64|i32|i64) as (std::convert::)?From<bool>>::from$|^<bool as (std::convert::)?Into<(u8|u16|u32|usize|u64|i32|i64)>>::into$')
def m_int_from_bool(it, n, a):
    """false -> 0, true -> 1"""
    m_ = re.search(r'Into<(\w+)>|^<(\w+) as', n)
    w = {'u8': 8, 'u16': 16, 'u32': 32, 'u64': 64, 'usize': 64, 'i32': 32, 'i64': 64}[m_.group(1) or m_.group(2)]
    x = deref(a[0])
    if is_sym(x):
        return z3.If(x, z3.BitVecVal(1, w), z3.BitVecVal(0, w))
    return z3.BitVecVal(1 if x else 0, w)


@model(r'as Iterator>::rposition::<')
def m_iter_rposition(it, n, a):
    """index (from the front) of the last element satisfying the predicate"""
    itr = into_iter(deref(a[0]) if isinstance(deref(a[0]), IterBase) else a[0], it)
    items = []
    while True:
        x = itr.nxt(it)
        if x is STOP:
            break
        items.append(x)
    for i in range(len(items) - 1, -1, -1):
        if it.truth(it.call_closure(a[1], [items[i]])):
            return some(i)
    return none()


@model(r'^<Option<&?(u8|u16|u32|u64|usize)> as PartialOrd(<.*>)?>::(lt|le|gt|ge)$')
def m_opt_int_cmp(it, n, a):
    """derived ordering of Option<unsigned>: None < Some(_), Some(x) vs Some(y) by value"""
    op = re.search(r'::(lt|le|gt|ge)$', n).group(1)
    sx, vx = opt_fork(it, deref(a[0]))
    sy, vy = opt_fork(it, deref(a[1]))
    if sx != sy or not sx:
        c = (1 if sx else 0) - (1 if sy else 0)
        return {'lt': c < 0, 'le': c <= 0, 'gt': c > 0, 'ge': c >= 0}[op]
    x, y = deref(vx), deref(vy)
    if is_sym(x) or is_sym(y):
        w = x.size() if is_sym(x) else y.size()
        xz = x if is_sym(x) else z3.BitVecVal(x, w)
        yz = y if is_sym(y) else z3.BitVecVal(y, w)
        return {'lt': z3.ULT, 'le': z3.ULE, 'gt': z3.UGT, 'ge': z3.UGE}[op](xz, yz)
    return {'lt': x < y, 'le': x <= y, 'gt': x > y, 'ge': x >= y}[op]


@model(r'^UniqueArena::<.*>::get$')
def m_unique_arena_get(it, n, a):
    """handle of the arena element equal to the given value (derived Eq, decided element by element)"""
    arena = arg0(a)
    for i, item in enumerate(arena.fields[0].items):
        if deep_eq(it, item, a[1]):
            return some(i)
    return none()


@model(r'^(Arena|UniqueArena)::<.*>::(get_handle|try_get)$')
def m_arena_try_get(it, n, a):
    raise Unsupported(n)


@model(r'^<naga::Handle<.*> as PartialEq>::eq$')
def m_handle_eq(it, n, a):
    return h_eq(a[0], a[1])


@model(r'^<Option<&?(str|String|u8|u16|u32|u64|usize|i32|bool)> as PartialEq>::eq$')
def m_opt_prim_eq(it, n, a):
    x, y = deref(a[0]), deref(a[1])
    sx, vx = opt_fork(it, x)
    sy, vy = opt_fork(it, y)
    if sx != sy:
        return False
    if not sx:
        return True
    vx, vy = deref(vx), deref(vy)
    if isinstance(vx, (str, SymStr)) or isinstance(vy, (str, SymStr)):
        return str_eq(it, vx, vy)
    return h_eq(vx, vy)


@model(r'^<Option<naga::Handle<.*>> as PartialEq>::eq$')
def m_opt_handle_eq(it, n, a):
    x, y = deref(a[0]), deref(a[1])
    sx, vx = opt_fork(it, x)
    sy, vy = opt_fork(it, y)
    if sx != sy:
        return False
    if not sx:
        return True
    return h_eq(vx, vy)


@model(r' as PartialEq(<.*>)?>::ne$')
def m_generic_ne(it, n, a):
    """`ne` of any type whose `eq` is known (derived PartialEq: ne = !eq)"""
    r = it.call(it.resolve(n[:-2] + 'eq'), a)
    return z3.Not(r) if is_sym(r) else (not r)


def enum_eq(it, x, y):
    x, y = deref(x), deref(y)
    dx, dy = x.disc, y.disc
    if is_sym(dx) or is_sym(dy):
        w = dx.size() if is_sym(dx) else dy.size()
        dxz = dx if is_sym(dx) else z3.BitVecVal(dx, w)
        dyz = dy if is_sym(dy) else z3.BitVecVal(dy, w)
        return dxz == dyz
    return dx == dy


@model(r'^<&?(ScalarKind|ShaderStage|VectorSize|ImageDimension) as PartialEq(<.*>)?>::eq$')
def m_enum_eq(it, n, a):
    return enum_eq(it, a[0], a[1])


@model(r'^<naga::Scalar as PartialEq>::eq$')
def m_scalar_eq(it, n, a):
    x, y = deref(a[0]), deref(a[1])
    k = enum_eq(it, x.fields[0], y.fields[0])
    w = h_eq(x.fields[1], y.fields[1])
    if k is False or w is False:
        return False
    if k is True and w is True:
        return True
    return z3.And(*[t for t in (k, w) if t is not True])


@model(r'^<AddressSpace as PartialEq>::eq$')
def m_space_eq(it, n, a):
    x, y = deref(a[0]), deref(a[1])
    c = enum_eq(it, x, y)
    # derived PartialEq also compares the payload of Storage { access }
    def payload(v):
        if isinstance(v.fields, dict):
            return v.fields.get('Storage', [None])[0]
        return v.fields[0] if v.variant == 'Storage' and v.fields else None
    px, py = payload(x), payload(y)
    if px is not None and py is not None:
        both_storage = z3.And(c, (x.disc == 4) if is_sym(x.disc) else z3.BoolVal(x.disc == 4)) if is_sym(c) else (c and x.disc == 4)
        eqp = flag_bits(px) == flag_bits(py)
        if both_storage is True:
            return eqp
        if both_storage is False:
            return c
        return z3.And(c, z3.Implies(both_storage, eqp))
    return c


@model(r'^<naga::Block as (std::ops::)?Deref>::deref$')
def m_block_deref(it, n, a):
    return arg0(a).fields[0].items


@model(r'^naga::Block::(iter|is_empty|len)$')
def m_block_iter(it, n, a):
    items = arg0(a).fields[0].items
    if n.endswith('iter'):
        return SliceIter(items)
    return len(items) == 0 if n.endswith('is_empty') else len(items)


@model(r'impl (wgpu::)?(ShaderStages|StorageAccess|Capabilities|ValidationFlags)>::(all)$')
def m_flags_all(it, n, a):
    ty = re.search(r'impl ((wgpu::)?\w+)>::all', n).group(1)
    b = it.env['schema']['bitflags'][ty]
    bits = 0
    for v in b['flags'].values():
        if v is not None:
            bits |= v
    return mkflags(ty, bits)


@model(r'impl (wgpu::)?(ShaderStages|StorageAccess|Capabilities|ValidationFlags)>::contains$')
def m_flags_contains(it, n, a):
    s, o = flag_bits(a[0]), flag_bits(a[1])
    return (s & o) == o


@model(r'impl (wgpu::)?(ShaderStages|StorageAccess|Capabilities|ValidationFlags)>::(intersects)$')
def m_flags_intersects(it, n, a):
    s, o = flag_bits(a[0]), flag_bits(a[1])
    return (s & o) != 0


@model(r'impl (wgpu::)?(ShaderStages|StorageAccess|Capabilities|ValidationFlags)>::(is_empty)$')
def m_flags_is_empty(it, n, a):
    return flag_bits(a[0]) == 0


@model(r'impl (wgpu::)?(ShaderStages|StorageAccess|Capabilities|ValidationFlags)>::(empty)$')
def m_flags_empty(it, n, a):
    ty = re.search(r'impl ((wgpu::)?\w+)>::empty', n).group(1)
    return mkflags(ty, 0)


@model(r'impl (wgpu::)?(ShaderStages|StorageAccess|Capabilities|ValidationFlags)>::bits$')
def m_flags_bits(it, n, a):
    return flag_bits(a[0])


@model(r'impl (wgpu::)?(ShaderStages|StorageAccess|Capabilities|ValidationFlags)>::(union|intersection|difference)$|(ShaderStages|StorageAccess|Capabilities|ValidationFlags) as (std::ops::)?(BitOr|BitAnd|Sub)>::(bitor|bitand|sub)$')
def m_flags_binop(it, n, a):
    x, y = flag_bits(a[0]), flag_bits(a[1])
    if re.search(r'union$|bitor$', n):
        r = x | y
    elif re.search(r'intersection$|bitand$', n):
        r = x & y
    else:
        r = x & ~y
    if is_sym(r):
        r = z3.simplify(r)
    ty = deref(a[0]).path if isinstance(deref(a[0]), Agg) else 'wgpu::ShaderStages'
    return mkflags(ty, r)


@model(r'ShaderStages as (std::ops::)?(BitOrAssign)>::bitor_assign$|impl (wgpu::)?ShaderStages>::insert$')
def m_flags_or_assign(it, n, a):
    r = a[0]
    cur = r.get()
    nv = flag_bits(cur) | flag_bits(a[1])
    r.set(mkflags(cur.path, z3.simplify(nv) if is_sym(nv) else nv))
    return unit()


@model(r'^<(wgpu::)?ShaderStages as PartialEq>::eq$|<StorageAccess as PartialEq>::eq$')
def m_flags_eq(it, n, a):
    return flag_bits(a[0]) == flag_bits(a[1])


@model(r'impl Module>::to_ctx$')
def m_to_ctx(it, n, a):
    return Agg('GlobalCtx', [arg0(a)])


def scalar_of(s):
    return s.fields[0], s.fields[1]


def type_size(it, module, inner, depth=0):
    """transcription of naga-24.0.0 src/proc/mod.rs TypeInner::size (lines 287-320)"""
    sch = it.env['schema']
    conv = it.env['conv']
    d = inner.disc
    E = {v['name']: v['disc'] for v in sch['enums']['TypeInner']}
    if is_sym(d):
        d = it.concretize(d, sorted(E.values()))
    name = next(k for k, v in E.items() if v == d)
    f = inner.fields[name] if isinstance(inner.fields, dict) else inner.fields

    def u32(x):
        return z3.ZeroExt(32 - x.size(), x) if is_sym(x) and x.size() < 32 else x

    def vsize(v):
        dd = v.disc
        return u32(dd) if not is_sym(dd) else z3.Extract(31, 0, dd) if dd.size() > 32 else u32(dd)
    if name in ('Scalar', 'Atomic'):
        return u32(f[0].fields[1])
    if name == 'Vector':
        return vsize(f[0]) * u32(f[1].fields[1])
    if name == 'Matrix':
        cols, rows, sc = f
        # Alignment::from(rows) * scalar.width as u32 * columns as u32 ; Alignment::from(Tri) = 4
        rd = rows.disc
        if is_sym(rd):
            rd = it.concretize(rd, [2, 3, 4])
        al = {2: 2, 3: 4, 4: 4}[rd]
        return al * u32(sc.fields[1]) * vsize(cols)
    if name in ('Pointer', 'ValuePointer'):
        return 4
    if name == 'Array':
        base, size, stride = f
        sd = size.disc
        if is_sym(sd):
            sd = it.concretize(sd, [0, 1, 2])
        if sd == 0:
            cnt = size.fields['Constant'][0] if isinstance(size.fields, dict) else size.fields[0]
        elif sd == 1:
            raise Unsupported('Pending array size')
        else:
            cnt = 1
        return cnt * stride
    if name == 'Struct':
        return f[1]
    if name in ('Image', 'Sampler', 'AccelerationStructure', 'RayQuery', 'BindingArray'):
        return 0
    raise Unsupported('TypeInner::size of ' + name)


@model(r'impl TypeInner>::size$')
def m_type_size(it, n, a):
    inner = arg0(a)
    module = a[1].fields[0]
    return type_size(it, module, inner)


@model(r'^<naga::proc::Layouter as (std::default::)?Default>::default$')
def m_layouter_default(it, n, a):
    return Agg('Layouter', [None])


@model(r'^naga::proc::Layouter::update$')
def m_layouter_update(it, n, a):
    lay = arg0(a)
    lay.fields[0] = a[1].fields[0]
    return ok(unit())


@model(r'^<naga::proc::Layouter as (std::ops::)?Index<.*>>::index$')
def m_layouter_index(it, n, a):
    lay = arg0(a)
    module = lay.fields[0]
    conv = it.env['conv']
    types = conv.get(module, 'types')
    i = handle_index(it, types, a[1], 'Layouter')
    ty = types.fields[0].items[i]
    inner = conv.get(ty, 'inner')
    sizes = getattr(module, 'layouts', None)
    if getattr(module, 'sym_types', None) and i in module.sym_types:
        size = type_size(it, module, inner)
    elif sizes is not None and i < len(sizes):
        size = sizes[i]['size']
        # cross-check the transcription on every concrete type (translator validation)
        mine = type_size(it, module, inner)
        if isinstance(mine, int) and inner.variant in ('Scalar', 'Vector', 'Matrix', 'Atomic', 'Struct') and mine != size:
            raise Unsupported(f'type size model disagrees with naga Layouter for type {i}: {mine} != {size}')
    else:
        size = type_size(it, module, inner)
    try:
        al = type_align(it, module, inner)
        if sizes is not None and i < len(sizes) and not (getattr(module, 'sym_types', None) and i in module.sym_types):
            if isinstance(al, int) and al != sizes[i]['alignment'] and inner.variant in ('Scalar', 'Vector', 'Matrix', 'Atomic'):
                raise Unsupported(f'alignment model disagrees with naga Layouter for type {i}: {al} != {sizes[i]["alignment"]}')
            al = sizes[i]['alignment']
    except Unsupported:
        raise
    except Exception:
        al = Opaque('alignment')
    return mkref(Agg('TypeLayout', [size, al]))


# =========================================================================================== environment
@model(r'^naga::front::wgsl::parse_str$')
def m_parse_str(it, n, a):
    return it.env['parse_str'](it, deref(a[0]))


@model(r'^Validator::new$')
def m_validator_new(it, n, a):
    return Agg('Validator', [a[0], a[1]])


@model(r'^Validator::validate$')
def m_validate(it, n, a):
    return it.env['validate'](it, arg0(a), deref(a[1]))


@model(r'^(syn::)?parse_file$')
def m_parse_file(it, n, a):
    s = deref(a[0])
    if not isinstance(s, TokString):
        raise Unsupported('syn::parse_file of something that is not the token string')
    f = it.env.get('parse_file')
    if f is not None:
        return f(it, s)
    return ok(Agg('syn::File', [s]))


@model(r'^(prettyplease::)?unparse$')
def m_unparse(it, n, a):
    f = arg0(a)
    s = f.fields[0]
    return TokString(s.toks, via=s.via + ('prettyplease',))


@model(r'^Command::new|^Command::(arg|stdin|stdout|stderr)|^Stdio::(piped|null)')
def m_command_builder(it, n, a):
    if n.startswith('Command::new'):
        return Agg('Command', [[deref(a[0])]])
    if n.startswith('Stdio'):
        return Opaque(n)
    c = arg0(a)
    c.fields[0].append((n.split('::')[1].split('<')[0], deref(a[1])))
    return a[0]


@model(r'^Command::spawn$')
def m_spawn(it, n, a):
    return it.env['spawn'](it, arg0(a))


@model(r'^<ChildStdin as (std::io::)?Write>::write_all$')
def m_write_all(it, n, a):
    return it.env['write_all'](it, arg0(a), a[1])


@model(r'^Child::wait_with_output$')
def m_wait(it, n, a):
    return it.env['wait_with_output'](it, a[0])


@model(r'^ExitStatus::success$')
def m_success(it, n, a):
    return arg0(a).fields[0]


@model(r'^String::from_utf8$')
def m_from_utf8(it, n, a):
    return it.env['from_utf8'](it, a[0])


@model(r'(ParseError|WithSpan::<ValidationError>)::emit_to_(stderr|string)(_with_path)?(::<.*>)?$')
def m_emit(it, n, a):
    it.env.setdefault('emit_calls', []).append((n, [deref(x) for x in a]))
    return unit() if 'stderr' in n else Opaque('diagnostic')


@model(r'^<impl AsRef<Path> as AsRef<(std::path::)?Path>>::as_ref$')
def m_path_as_ref(it, n, a):
    return a[0]


@model(r'Path::to_string_lossy$')
def m_to_string_lossy(it, n, a):
    return Agg('Cow', [deref(a[0])])


@model(r"<Cow<'_, str> as (std::ops::)?Deref>::deref$")
def m_cow_deref(it, n, a):
    return arg0(a).fields[0]


def load_consts(schema):
    B = schema['bitflags']
    c = {}
    for k, v in B['wgpu::ShaderStages']['flags'].items():
        c['wgpu::ShaderStages::' + k] = mkflags('wgpu::ShaderStages', v)
    for ty, prefixes in (('StorageAccess', ('naga::', '')), ('ValidationFlags', ('naga::valid::', 'valid::', '')),
                         ('Capabilities', ('naga::valid::', 'valid::', ''))):
        for k, v in B[ty]['flags'].items():
            if v is None:
                continue
            for pre in prefixes:
                c[f'{pre}{ty}::{k}'] = mkflags(ty, v)
    return c


@model(r'^Option::<.*>::take$')
def m_opt_take(it, n, a):
    r = a[0]
    v = r.get()
    r.set(none())
    return v


@model(r'^String::is_empty$|str>::is_empty$')
def m_str_is_empty(it, n, a):
    s = arg0(a)
    if isinstance(s, str):
        return len(s) == 0
    if hasattr(s, 'empty'):
        return s.empty
    if isinstance(s, TokString):
        return len(s.toks) == 0
    raise Unsupported(f'is_empty of {s!r}')


@model(r'^String::len$|str>::len$')
def m_str_len(it, n, a):
    s = arg0(a)
    if isinstance(s, str):
        return len(s.encode())
    if isinstance(s, SymStr):
        return it.fresh('string_length', 64)           # an abstract string has some length
    raise Unsupported(f'len of {s!r}')


# =========================================================================================== interior-mutable global state
@model(r'^(std::sync::atomic::)?Atomic(::<.*>)?::new$|^(std::sync::atomic::)?Atomic\w+::new$|^(std::cell::)?(Cell|RefCell)::<.*>::new$')
def m_atomic_new(it, n, a):
    return Agg('Atomic', [a[0]])


@model(r'Atomic(::<.*>|\w+)::load$|(Cell)::<.*>::get$')
def m_atomic_load(it, n, a):
    return arg0(a).fields[0]


@model(r'Atomic(::<.*>|\w+)::store$|(Cell)::<.*>::set$')
def m_atomic_store(it, n, a):
    arg0(a).fields[0] = a[1]
    return unit()


@model(r'Atomic(::<.*>|\w+)::(swap|fetch_or|fetch_and|fetch_add|fetch_sub)$')
def m_atomic_rmw(it, n, a):
    cell = arg0(a)
    old = cell.fields[0]
    op = re.search(r'::(\w+)$', n).group(1)
    v = a[1]
    if op == 'swap':
        new = v
    elif op in ('fetch_or', 'fetch_and') and isinstance(old, bool) and isinstance(v, bool):
        new = (old or v) if op == 'fetch_or' else (old and v)
    elif op == 'fetch_or':
        new = z3.Or(old, v) if (is_sym(old) and z3.is_bool(old)) or isinstance(old, bool) else old | v
    elif op == 'fetch_and':
        new = z3.And(old, v) if (is_sym(old) and z3.is_bool(old)) or isinstance(old, bool) else old & v
    elif op == 'fetch_add':
        new = old + v
    else:
        new = old - v
    cell.fields[0] = new
    return old


@model(r'^ExitStatus::code$')
def m_exit_code(it, n, a):
    st = arg0(a)
    if len(st.fields) < 2:
        raise Unsupported('ExitStatus::code on a status without a code model')
    return st.fields[1]


@model(r'^ExitStatus::(signal|core_dumped)$|ExitStatusExt>::signal$')
def m_exit_signal(it, n, a):
    st = arg0(a)
    if len(st.fields) < 3:
        raise Unsupported('ExitStatus::signal on a status without a signal model')
    return st.fields[2]


# =========================================================================================== wider library surface
# (so that a changed implementation that uses other std / quote APIs is EXECUTED rather than stopping the run)
class ZipIter(IterBase):
    def __init__(self, a, b):
        self.a, self.b = a, b

    def nxt(self, it):
        x = self.a.nxt(it)
        if x is STOP:
            return STOP
        y = self.b.nxt(it)
        if y is STOP:
            return STOP
        return tup(x, y)


class ChainIter(IterBase):
    def __init__(self, a, b):
        self.a, self.b = a, b

    def nxt(self, it):
        if self.a is not None:
            x = self.a.nxt(it)
            if x is not STOP:
                return x
            self.a = None
        return self.b.nxt(it)


class TakeSkipIter(IterBase):
    def __init__(self, src, n, skip):
        self.src, self.n, self.skip, self.done = src, n, skip, False

    def nxt(self, it):
        if self.skip:
            if not self.done:
                for _ in range(self.n):
                    if self.src.nxt(it) is STOP:
                        break
                self.done = True
            return self.src.nxt(it)
        if self.n <= 0:
            return STOP
        self.n -= 1
        return self.src.nxt(it)


def conc_int(it, v, what):
    if is_sym(v):
        raise Unsupported(f'symbolic {what}')
    return v


@model(r'as Iterator>::zip::<')
def m_iter_zip(it, n, a):
    return ZipIter(a[0], into_iter(a[1], it))


@model(r'as Iterator>::chain::<')
def m_iter_chain(it, n, a):
    return ChainIter(a[0], into_iter(a[1], it))


@model(r'as Iterator>::(take|skip)$')
def m_iter_take_skip(it, n, a):
    return TakeSkipIter(a[0], conc_int(it, a[1], 'take/skip count'), n.endswith('skip'))


@model(r'as Iterator>::rev$|as DoubleEndedIterator>::rev$')
def m_iter_rev(it, n, a):
    return ListIter(list(reversed(a[0].drain(it))))


@model(r'as Iterator>::(last)$')
def m_iter_last(it, n, a):
    xs = a[0].drain(it)
    return some(xs[-1]) if xs else none()


@model(r'as Iterator>::nth$')
def m_iter_nth(it, n, a):
    k = conc_int(it, a[1], 'nth index')
    src = deref(a[0])
    x = STOP
    for _ in range(k + 1):
        x = src.nxt(it)
        if x is STOP:
            return none()
    return some(x)


@model(r'as Iterator>::for_each::<')
def m_iter_for_each(it, n, a):
    for x in a[0].drain(it):
        it.call_closure(a[1], [x])
    return unit()


@model(r'as Iterator>::fold::<')
def m_iter_fold(it, n, a):
    acc = a[1]
    for x in a[0].drain(it):
        acc = it.call_closure(a[2], [acc, x])
    return acc


@model(r'as Iterator>::(sum|product)::<')
def m_iter_sum(it, n, a):
    acc = 0 if '::sum' in n else 1
    for x in a[0].drain(it):
        x = deref(x)
        acc = acc + x if '::sum' in n else acc * x
    return acc


@model(r'as Iterator>::(max_by_key|min_by_key)::<')
def m_iter_max_by_key(it, n, a):
    xs = a[0].drain(it)
    if not xs:
        return none()
    ismax = 'max_by_key' in n
    best, bk = xs[0], deref(it.call_closure(a[1], [mkref(xs[0])]))
    for x in xs[1:]:
        k = deref(it.call_closure(a[1], [mkref(x)]))
        if is_sym(k) or is_sym(bk):
            w = k.size() if is_sym(k) else bk.size()
            kz = k if is_sym(k) else z3.BitVecVal(k, w)
            bz = bk if is_sym(bk) else z3.BitVecVal(bk, w)
            better = it.truth(z3.UGE(kz, bz) if ismax else z3.ULT(kz, bz))
        else:
            better = (k >= bk) if ismax else (k < bk)
        if better:
            best, bk = x, k
    return some(best)


@model(r'as Iterator>::unzip::<')
def m_iter_unzip(it, n, a):
    xs = a[0].drain(it)
    return tup(VecV([x.fields[0] for x in xs]), VecV([x.fields[1] for x in xs]))


@model(r'as Iterator>::flatten$')
def m_iter_flatten(it, n, a):
    out = []
    for x in a[0].drain(it):
        if isinstance(x, Agg) and x.path == 'Option':
            s_, v = opt_fork(it, x)
            if s_:
                out.append(v)
        else:
            out.extend(into_iter(x, it).drain(it))
    return ListIter(out)


@model(r'as Iterator>::collect::<(std::collections::)?HashSet<')
def m_iter_collect_hashset(it, n, a):
    s = HashSetV()
    for x in a[0].drain(it):
        had = hs_contains(s, x)
        if had is True:
            continue
        if had is not False and it.truth(had):
            continue
        s.items.append(deref(x))
    return s


@model(r'as Iterator>::collect::<(std::collections::)?BTreeMap<')
def m_iter_collect_btree(it, n, a):
    m = BTreeV()
    for x in a[0].drain(it):
        k, v = x.fields
        i, found = bt_find(it, m, k)
        if found:
            m.entries[i][1] = v
        else:
            m.entries.insert(i, [k, v])
    return m


@model(r'as Iterator>::collect::<String>$')
def m_iter_collect_string(it, n, a):
    return sconcat([deref(x) for x in a[0].drain(it)])


@model(r'as Iterator>::collect::<TokenStream>$|<TokenStream as FromIterator<.*>>::from_iter')
def m_iter_collect_ts(it, n, a):
    out = TokStream()
    for x in into_iter(a[0], it).drain(it):
        x = deref(x)
        out.toks.extend(x.toks if isinstance(x, TokStream) else [x])
    return out


@model(r'<TokenStream as Extend<.*>>::extend')
def m_ts_extend(it, n, a):
    dst = arg0(a)
    src = a[1]
    if isinstance(deref(src), TokStream):
        dst.toks.extend(deref(src).toks)
    else:
        for x in into_iter(src, it).drain(it):
            x = deref(x)
            dst.toks.extend(x.toks if isinstance(x, TokStream) else [x])
    return unit()


@model(r'^TokenStream::is_empty$')
def m_ts_is_empty(it, n, a):
    return len(arg0(a).toks) == 0


@model(r'<(proc_macro2::)?(Ident|Literal) as ToString>::to_string$')
def m_ident_to_string(it, n, a):
    t = arg0(a)
    if t.k == 'ident':
        return t.v
    from .tokens import lit_text
    tx = lit_text(*t.v) if t.v[0] != 'string' else None
    if isinstance(tx, str):
        return tx
    raise Unsupported('to_string of a symbolic / string literal token')


@model(r'Literal::(u8|u16|u32|u64|usize|i8|i16|i32|i64|isize|f32|f64)_(suffixed|unsuffixed)$')
def m_lit_num(it, n, a):
    m = re.search(r'Literal::(\w+?)_(suffixed|unsuffixed)$', n)
    ty, sfx = m.group(1), m.group(2)
    if sfx == 'unsuffixed' and ty not in ('f32', 'f64'):
        return Tok('lit', ('usize_unsuffixed', a[0]))
    if sfx == 'unsuffixed':
        raise Unsupported('unsuffixed float literal')
    return Tok('lit', (ty, a[0]))


@model(r'__private::mk_ident$|format_ident')
def m_mk_ident(it, n, a):
    return Tok('ident', deref(a[0]))


@model(r'__private::IdentFragmentAdapter')
def m_ident_fragment(it, n, a):
    return a[0]


# ---- Option -------------------------------------------------------------------------------------------------
@model(r'^Option::<.*>::as_deref$')
def m_opt_as_deref(it, n, a):
    s_, v = opt_fork(it, a[0])
    return some(deref1(v) if isinstance(v, Ref) else v) if s_ else none()


@model(r'^Option::<.*>::filter::<')
def m_opt_filter(it, n, a):
    s_, v = opt_fork(it, a[0])
    if s_ and it.truth(it.call_closure(a[1], [mkref(v)])):
        return some(v)
    return none()


@model(r'^Option::<.*>::(or)$')
def m_opt_or(it, n, a):
    s_, v = opt_fork(it, a[0])
    return some(v) if s_ else a[1]


@model(r'^Option::<.*>::or_else::<')
def m_opt_or_else(it, n, a):
    s_, v = opt_fork(it, a[0])
    return some(v) if s_ else it.call_closure(a[1], [])


@model(r'^Option::<.*>::(zip)::<')
def m_opt_zip(it, n, a):
    s1, v1 = opt_fork(it, a[0])
    s2, v2 = opt_fork(it, a[1])
    return some(tup(v1, v2)) if s1 and s2 else none()


@model(r'^Option::<.*>::map_or::<')
def m_opt_map_or(it, n, a):
    s_, v = opt_fork(it, a[0])
    return it.call_closure(a[2], [v]) if s_ else a[1]


@model(r'^Option::<.*>::map_or_else::<')
def m_opt_map_or_else(it, n, a):
    s_, v = opt_fork(it, a[0])
    return it.call_closure(a[2], [v]) if s_ else it.call_closure(a[1], [])


@model(r'^Option::<.*>::(is_some_and|is_none_or)::<')
def m_opt_is_some_and(it, n, a):
    s_, v = opt_fork(it, a[0])
    if 'is_some_and' in n:
        return it.truth(it.call_closure(a[1], [v])) if s_ else False
    return it.truth(it.call_closure(a[1], [v])) if s_ else True


@model(r'^Option::<.*>::(replace|insert|get_or_insert)$')
def m_opt_replace(it, n, a):
    r = a[0]
    old = r.get()
    if n.endswith('get_or_insert'):
        s_, v = opt_fork(it, old)
        if not s_:
            r.set(some(a[1]))
        return Ref(r.cell, r.path + (0,))
    r.set(some(a[1]))
    return old if n.endswith('replace') else Ref(r.cell, r.path + (0,))


@model(r'^Option::<.*>::unwrap_or_default$')
def m_opt_unwrap_or_default2(it, n, a):
    s_, v = opt_fork(it, a[0])
    if s_:
        return v
    if 'String' in n or 'str' in n:
        return ''
    if re.search(r'<(u|i)(8|16|32|64|size)>', n):
        return 0
    if 'Vec<' in n:
        return VecV()
    raise Unsupported(n)


@model(r'^(std::result::)?Result::<.*>::(unwrap_or|unwrap_or_else)(::<.*>)?$')
def m_res_unwrap_or(it, n, a):
    isok, v = res_fork(it, a[0])
    if isok:
        return v
    return a[1] if n.split('::<')[0].endswith('unwrap_or') or re.search(r'unwrap_or$', n) else it.call_closure(a[1], [v])


# ---- Vec / slices -------------------------------------------------------------------------------------------------
@model(r'^Vec::<.*>::(extend|extend_from_slice|append)(::<.*>)?$|<Vec<.*> as Extend<.*>>::extend')
def m_vec_extend(it, n, a):
    v = arg0(a)
    src = a[1]
    d = deref(src)
    if isinstance(d, VecV):
        items = list(d.items)
        if 'append' in n:
            d.items.clear()
    elif isinstance(d, list):
        items = [clone_val(x) for x in d]
    else:
        items = into_iter(src, it).drain(it)
    v.items.extend(items)
    return unit()


@model(r'^Vec::<.*>::insert$')
def m_vec_insert(it, n, a):
    arg0(a).items.insert(conc_int(it, a[1], 'insert index'), a[2])
    return unit()


@model(r'^Vec::<.*>::remove$|^Vec::<.*>::swap_remove$')
def m_vec_remove(it, n, a):
    v = arg0(a)
    i = conc_int(it, a[1], 'remove index')
    if not (0 <= i < len(v.items)):
        raise Panic('removal index out of bounds')
    if n.endswith('swap_remove'):
        v.items[i], v.items[-1] = v.items[-1], v.items[i]
        return v.items.pop()
    return v.items.pop(i)


@model(r'^Vec::<.*>::pop$')
def m_vec_pop(it, n, a):
    v = arg0(a)
    return some(v.items.pop()) if v.items else none()


@model(r'^Vec::<.*>::(clear)$')
def m_vec_clear(it, n, a):
    arg0(a).items.clear()
    return unit()


# ---- scoped threads, sequentialised: a spawned closure runs to completion at the spawn point (ONE schedule; interleavings are
# outside what this engine decides) and join() hands back its result.  Enough to follow data flow through thread::scope.
@model(r'^(std::thread::|thread::)?scope::<')
def m_thread_scope(it, n, a):
    it.env.setdefault('threads_sequentialised', []).append('scope')
    return it.call_closure(a[0], [mkref(Opaque('thread::Scope'))])


@model(r'^(std::thread::)?Scope::<.*>::spawn::<')
def m_scope_spawn(it, n, a):
    return Agg('ScopedJoinHandle', [it.call_closure(a[1], [])])


@model(r'^(std::thread::)?ScopedJoinHandle::<.*>::join$')
def m_scoped_join(it, n, a):
    return ok(deref(a[0]).fields[0])


@model(r'^Vec::<.*>::truncate$')
def m_vec_truncate(it, n, a):
    del arg0(a).items[conc_int(it, a[1], 'truncate length'):]
    return unit()


@model(r'^Vec::<.*>::retain::<')
def m_vec_retain(it, n, a):
    v = arg0(a)
    v.items[:] = [x for x in v.items if it.truth(it.call_closure(a[1], [mkref(x)]))]
    return unit()


@model(r'^Vec::<.*>::dedup$')
def m_vec_dedup(it, n, a):
    """removes CONSECUTIVE equal elements only (as std does); equality of handles / integers / strings through the solver"""
    v = arg0(a)
    out = []
    for x in v.items:
        if out:
            px, cx = deref(out[-1]), deref(x)
            if isinstance(px, (str, SymStr)) or isinstance(cx, (str, SymStr)):
                same = it.truth(str_eq(it, px, cx))
            elif isinstance(px, Agg) or isinstance(cx, Agg):
                raise Unsupported(n + ' on aggregate elements')
            else:
                same = it.truth(h_eq(px, cx))
            if same:
                continue
        out.append(x)
    v.items[:] = out
    return unit()


@model(r'slice::<impl \[.*\]>::(iter_mut)$')
def m_slice_iter_mut(it, n, a):
    return SliceIter(deref(a[0]))


@model(r'slice::<impl \[.*\]>::contains$')
def m_slice_contains(it, n, a):
    x = a[1]
    for e in arg0(a):
        c = h_eq(e, x) if not isinstance(deref(e), str) else (deref(e) == deref(x))
        if it.truth(c):
            return True
    return False


@model(r'slice::<impl \[.*\]>::(get|get_mut)::<usize>$')
def m_slice_get(it, n, a):
    items = arg0(a)
    i = a[1]
    if is_sym(i):
        i = it.concretize(i, list(range(len(items))))
        if i is None:
            return none()
    return some(Ref(Cell(items), (i,))) if 0 <= i < len(items) else none()


def sort_key(it, k):
    k = deref(k)
    if isinstance(k, (str, int)):
        return k
    raise Unsupported(f'sorting by a symbolic key {k!r}')


def sym_sort(it, items, keyf):
    """insertion sort (stable) whose comparisons go through the solver"""
    out = []
    for x in items:
        kx = keyf(x)
        pos = len(out)
        for j in range(len(out)):
            kj = out[j][0]
            if key_cmp(it, kx, kj) < 0:
                pos = j
                break
        out.insert(pos, (kx, x))
    return [x for _, x in out]


@model(r'slice::<impl \[.*\]>::(sort_by_key|sort_unstable_by_key|sort_by_cached_key)::<')
def m_sort_by_key2(it, n, a):
    items = arg0(a)
    cell = Cell(items)
    keys = [deref(it.call_closure(a[1], [Ref(cell, (i,))])) for i in range(len(items))]
    order = sym_sort(it, list(range(len(items))), lambda i: keys[i])
    items[:] = [items[i] for i in order]
    return unit()


@model(r'slice::<impl \[.*\]>::(sort|sort_unstable)$')
def m_sort(it, n, a):
    items = arg0(a)
    items[:] = sym_sort(it, list(items), lambda x: deref(x))
    return unit()


@model(r'slice::<impl \[.*\]>::(sort_by|sort_unstable_by)::<')
def m_sort_by(it, n, a):
    items = arg0(a)
    out = []
    for x in items:
        pos = len(out)
        for j in range(len(out)):
            o = it.call_closure(a[1], [mkref(x), mkref(out[j])])
            d = o.disc
            if is_sym(d):
                d = it.concretize(d, [-1, 0, 1, 255, (1 << 64) - 1])
            if d in (-1, 255, (1 << 64) - 1) or (isinstance(d, int) and d < 0):
                pos = j
                break
        out.insert(pos, x)
    items[:] = out
    return unit()


@model(r'slice::<impl \[.*\]>::binary_search_by_key::<')
def m_binary_search_by_key(it, n, a):
    """faithful to core::slice::binary_search_by (size-halving variant of the locked std): the slice need not be sorted"""
    items = arg0(a)
    cell = Cell(items)
    key = a[1]

    def cmp(i):
        return key_cmp(it, it.call_closure(a[2], [Ref(cell, (i,))]), key)
    size = len(items)
    if size == 0:
        return err(0)
    base = 0
    while size > 1:
        half = size // 2
        mid = base + half
        c = cmp(mid)
        base = base if c > 0 else mid
        size -= half
    c = cmp(base)
    if c == 0:
        return ok(base)
    return err(base + (1 if c < 0 else 0))


@model(r'slice::<impl \[.*\]>::binary_search::<|slice::<impl \[.*\]>::binary_search$')
def m_binary_search(it, n, a):
    items = arg0(a)
    key = a[1]
    size = len(items)
    if size == 0:
        return err(0)
    base = 0
    while size > 1:
        half = size // 2
        mid = base + half
        c = key_cmp(it, items[mid], key)
        base = base if c > 0 else mid
        size -= half
    c = key_cmp(it, items[base], key)
    if c == 0:
        return ok(base)
    return err(base + (1 if c < 0 else 0))


# ---- maps / sets -------------------------------------------------------------------------------------------------
@model(r'^BTreeMap::<.*>::(values_mut)$')
def m_bt_values_mut(it, n, a):
    return ListIter([Ref(SlotCell(e)) for e in arg0(a).entries])


@model(r'^BTreeMap::<.*>::(iter_mut)$')
def m_bt_iter_mut(it, n, a):
    return ListIter([tup(Ref(KeyCell(e)), Ref(SlotCell(e))) for e in arg0(a).entries])


@model(r'^BTreeMap::<.*>::get_mut::<')
def m_bt_get_mut(it, n, a):
    return m_bt_get(it, n, a)


@model(r'^BTreeMap::<.*>::remove::<')
def m_bt_remove(it, n, a):
    m = arg0(a)
    i, found = bt_find(it, m, a[1])
    return some(m.entries.pop(i)[1]) if found else none()


@model(r'^BTreeMap::<.*>::(first_key_value|last_key_value)$')
def m_bt_first(it, n, a):
    m = arg0(a)
    if not m.entries:
        return none()
    e = m.entries[0 if 'first' in n else -1]
    return some(tup(Ref(KeyCell(e)), Ref(SlotCell(e))))


@model(r'^BTreeMap::<.*>::into_(values|keys)$')
def m_bt_into_values(it, n, a):
    m = arg0(a)
    return ListIter([e[1] if n.endswith('values') else e[0] for e in m.entries])


@model(r'<BTreeMap<.*> as IntoIterator>::into_iter$')
def m_bt_into_iter(it, n, a):
    m = a[0]
    if isinstance(m, Ref):
        return ListIter([tup(Ref(KeyCell(e)), Ref(SlotCell(e))) for e in deref(m).entries])
    return ListIter([tup(e[0], e[1]) for e in m.entries])


@model(r'<(std::collections::)?HashSet<.*> as Extend<.*>>::extend|^HashSet::<.*>::extend')
def m_hs_extend(it, n, a):
    s = arg0(a)
    for x in into_iter(a[1], it).drain(it):
        had = hs_contains(s, x)
        if had is True:
            continue
        if had is not False and it.truth(had):
            continue
        s.items.append(deref(x))
    return unit()


@model(r'^HashSet::<.*>::remove::<')
def m_hs_remove(it, n, a):
    s = arg0(a)
    for i, e in enumerate(s.items):
        if it.truth(h_eq(e, a[1])):
            s.items.pop(i)
            return True
    return False


@model(r'^HashSet::<.*>::is_empty$')
def m_hs_is_empty(it, n, a):
    return len(arg0(a).items) == 0


# ---- strings -------------------------------------------------------------------------------------------------
@model(r'^String::new$')
def m_string_new(it, n, a):
    return ''


@model(r'^String::(push_str|push)$')
def m_string_push(it, n, a):
    r = a[0]
    cur = r.get()
    add = deref(a[1])
    if isinstance(add, int):
        add = chr(add)
    r.set(sconcat([cur, add]))
    return unit()


@model(r'<String as (std::ops::)?Add<&str>>::add$')
def m_string_add(it, n, a):
    return sconcat([a[0], deref(a[1])])


@model(r'str>::(starts_with|ends_with|contains)::<')
def m_str_pred(it, n, a):
    s, p = arg0(a), deref(a[1])
    if isinstance(s, str) and isinstance(p, str):
        op = re.search(r'str>::(\w+)', n).group(1)
        return {'starts_with': s.startswith(p), 'ends_with': s.endswith(p), 'contains': p in s}[op]
    # abstract string: the answer is a decision of the solver, asked once per (predicate, string, pattern) on a path and NAMED after
    # the question, so that a harness can build a concrete string satisfying the answers of a counterexample
    op = re.search(r'str>::(\w+)', n).group(1)
    key = (op, repr(s), repr(p))
    if key not in it.strpred:
        it.strpred[key] = it.fresh(f'strpred|{op}|{s!r}|{p!r}|', 'bool')
    return it.truth(it.strpred[key])


@model(r'str>::(to_string|to_owned)$|<&str as ToString>::to_string$')
def m_str_to_string(it, n, a):
    return arg0(a)


@model(r'^(core::num::<impl )?(u8|u16|u32|u64|usize|i32|i64)>?::(saturating_sub|saturating_add|wrapping_add|wrapping_sub|max|min|pow|next_power_of_two|div_ceil|next_multiple_of)$|<(u8|u16|u32|u64|usize|i32|i64) as Ord>::(max|min)$')
def m_int_ops(it, n, a):
    ty = re.search(r'(u8|u16|u32|u64|usize|i32|i64)', n).group(1)
    op = re.search(r'::(\w+)$', n).group(1)
    w = {'u8': 8, 'u16': 16, 'u32': 32, 'u64': 64, 'usize': 64, 'i32': 32, 'i64': 64}[ty]
    x, y = deref(a[0]), (deref(a[1]) if len(a) > 1 else None)
    sym = is_sym(x) or is_sym(y)
    if not sym:
        M = (1 << w) - 1
        return {'saturating_sub': lambda: max(0, x - y), 'saturating_add': lambda: min(M, x + y), 'wrapping_add': lambda: (x + y) & M,
                'wrapping_sub': lambda: (x - y) & M, 'max': lambda: max(x, y), 'min': lambda: min(x, y), 'pow': lambda: (x ** y) & M,
                'next_power_of_two': lambda: 1 << (x - 1).bit_length() if x > 1 else 1, 'div_ceil': lambda: -(-x // y),
                'next_multiple_of': lambda: -(-x // y) * y}[op]()
    xz = x if is_sym(x) else z3.BitVecVal(x, w)
    yz = y if (y is None or is_sym(y)) else z3.BitVecVal(y, w)
    if op == 'max':
        return z3.If(z3.UGE(xz, yz), xz, yz)
    if op == 'min':
        return z3.If(z3.ULE(xz, yz), xz, yz)
    if op == 'saturating_sub':
        return z3.If(z3.UGE(xz, yz), xz - yz, z3.BitVecVal(0, w))
    if op == 'wrapping_add':
        return xz + yz
    if op == 'wrapping_sub':
        return xz - yz
    if op == 'div_ceil':
        return z3.UDiv(xz + yz - 1, yz)
    if op == 'next_multiple_of':
        return z3.UDiv(xz + yz - 1, yz) * yz          # (overflow panics in debug builds are not modelled: sizes here are far below 2^32)
    raise Unsupported(n)


@model(r'^(core::num::<impl )?(u8|u16|u32|u64|usize|i32|i64)>?::checked_(shl|shr|add|sub|mul)$')
def m_int_checked(it, n, a):
    ty = re.search(r'(u8|u16|u32|u64|usize|i32|i64)', n).group(1)
    op = re.search(r'::checked_(\w+)$', n).group(1)
    w = {'u8': 8, 'u16': 16, 'u32': 32, 'u64': 64, 'usize': 64, 'i32': 32, 'i64': 64}[ty]
    if ty.startswith('i'):
        raise Unsupported(n)
    x, y = deref(a[0]), deref(a[1])
    M = (1 << w) - 1
    if not (is_sym(x) or is_sym(y)):
        if op in ('shl', 'shr'):
            return none() if y >= w else some((x << y) & M if op == 'shl' else x >> y)
        r = {'add': x + y, 'sub': x - y, 'mul': x * y}[op]
        return some(r) if 0 <= r <= M else none()
    xz = x if is_sym(x) else z3.BitVecVal(x, w)
    if op in ('shl', 'shr'):
        yz = y if is_sym(y) else z3.BitVecVal(y, 32)
        if it.truth(z3.UGE(yz, w)):
            return none()
        sh = z3.ZeroExt(w - 32, yz) if w > 32 else z3.Extract(w - 1, 0, yz)
        return some(xz << sh if op == 'shl' else z3.LShR(xz, sh))
    yz = y if is_sym(y) else z3.BitVecVal(y, w)
    wide = {'add': z3.ZeroExt(w, xz) + z3.ZeroExt(w, yz), 'sub': z3.ZeroExt(w, xz) - z3.ZeroExt(w, yz), 'mul': z3.ZeroExt(w, xz) * z3.ZeroExt(w, yz)}[op]
    if it.truth(z3.UGT(wide, z3.BitVecVal(M, 2 * w))):
        return none()
    return some(z3.Extract(w - 1, 0, wide))


@model(r'^(std::)?(f32|f64)::(abs|is_nan|is_finite|is_infinite|is_sign_negative|is_sign_positive|to_bits)$|^core::f(32|64)::<impl f(32|64)>::(abs|is_nan|is_finite|is_infinite|is_sign_negative|is_sign_positive|to_bits)$')
def m_float_ops(it, n, a):
    import math
    import struct as _st
    op = re.search(r'::(\w+)$', n).group(1)
    x = deref(a[0])
    if is_sym(x) and z3.is_fp(x):
        return {'abs': lambda: z3.fpAbs(x), 'is_nan': lambda: z3.fpIsNaN(x), 'is_infinite': lambda: z3.fpIsInf(x),
                'is_finite': lambda: z3.And(z3.Not(z3.fpIsNaN(x)), z3.Not(z3.fpIsInf(x))),
                'is_sign_negative': lambda: z3.fpIsNegative(x), 'is_sign_positive': lambda: z3.fpIsPositive(x),
                'to_bits': lambda: z3.fpToIEEEBV(x)}[op]()
    if isinstance(x, float):
        wide = 'f64' in n
        return {'abs': lambda: abs(x), 'is_nan': lambda: math.isnan(x), 'is_infinite': lambda: math.isinf(x), 'is_finite': lambda: math.isfinite(x),
                'is_sign_negative': lambda: math.copysign(1.0, x) < 0, 'is_sign_positive': lambda: math.copysign(1.0, x) > 0,
                'to_bits': lambda: _st.unpack('<Q' if wide else '<I', _st.pack('<d' if wide else '<f', x))[0]}[op]()
    raise Unsupported(n)


@model(r'^naga::Handle::<.*>::index$')
def m_handle_index(it, n, a):
    h = deref(a[0])
    if is_sym(h):
        return z3.ZeroExt(64 - h.size(), h) if h.size() < 64 else h
    return h


@model(r'^Option::<(std::result::)?Result<.*>>::transpose$')
def m_opt_transpose(it, n, a):
    s_, v = opt_fork(it, a[0])
    if not s_:
        return ok(none())
    isok, w = res_fork(it, v)
    return ok(some(w)) if isok else err(w)


@model(r'^(std::result::)?Result::<Option<.*>>::transpose$')
def m_res_transpose(it, n, a):
    isok, v = res_fork(it, a[0])
    if not isok:
        return some(err(v))
    s_, w = opt_fork(it, v)
    return some(ok(w)) if s_ else none()


# =========================================================================================== HashMap, ordering, more strings
class HashMapV:
    def __init__(self):
        self.entries = []      # [key, value]


def variant_name(it, v):
    """variant of an enum value; forks when the discriminant is symbolic"""
    if not isinstance(v.fields, dict):
        return v.variant
    sch = it.env['schema']['enums'].get(v.path)
    if sch is None:
        raise Unsupported('symbolic enum of unknown type ' + str(v.path))
    d = v.disc
    if is_sym(d):
        d = it.concretize(d, [x['disc'] for x in sch])
    return next(x['name'] for x in sch if x['disc'] == d)


def fields_of(v, name):
    return v.fields.get(name, []) if isinstance(v.fields, dict) else v.fields


def deep_eq(it, a, b):
    """structural equality of two values (derived PartialEq); forks on symbolic scalars and discriminants"""
    a, b = deref(a), deref(b)
    if isinstance(a, Agg) and isinstance(b, Agg):
        if not isinstance(a.fields, dict) and not isinstance(b.fields, dict) and (is_sym(a.disc) or is_sym(b.disc)):
            # enum values whose discriminant is a term but whose payload is not variant-dependent (field-less enums)
            if a.disc is None or b.disc is None or not it.truth(h_eq(a.disc, b.disc)):
                return False
            return len(a.fields) == len(b.fields) and all(deep_eq(it, x, y) for x, y in zip(a.fields, b.fields))
        if a.disc is not None or b.disc is not None or isinstance(a.fields, dict) or isinstance(b.fields, dict):
            if a.path == 'Option' or isinstance(a.fields, dict) or isinstance(b.fields, dict) or is_sym(a.disc) or is_sym(b.disc):
                na = variant_name(it, a) if (isinstance(a.fields, dict) or is_sym(a.disc)) else a.variant
                nb = variant_name(it, b) if (isinstance(b.fields, dict) or is_sym(b.disc)) else b.variant
                if na != nb:
                    return False
                fa, fb = fields_of(a, na), fields_of(b, nb)
                return len(fa) == len(fb) and all(deep_eq(it, x, y) for x, y in zip(fa, fb))
        if a.disc is not None and b.disc is not None and not is_sym(a.disc) and not is_sym(b.disc):
            if a.disc != b.disc or len(a.fields) != len(b.fields):        # same enum: the discriminant decides, whatever name each side carries
                return False
        elif (a.variant is not None and b.variant is not None and a.variant != b.variant) or len(a.fields) != len(b.fields):
            return False            # (a struct value built by MIR carries its own name as "variant", one converted from the dump carries none)
        return all(deep_eq(it, x, y) for x, y in zip(a.fields, b.fields))
    if isinstance(a, VecV) and isinstance(b, VecV):
        return len(a.items) == len(b.items) and all(deep_eq(it, x, y) for x, y in zip(a.items, b.items))
    if isinstance(a, list) and isinstance(b, list):
        return len(a) == len(b) and all(deep_eq(it, x, y) for x, y in zip(a, b))
    if isinstance(a, Opaque) or isinstance(b, Opaque):
        return a is b or (isinstance(a, Opaque) and isinstance(b, Opaque) and a.what == b.what)
    if is_sym(a) or is_sym(b):
        return it.truth(h_eq(a, b))
    if isinstance(a, SymStr) or isinstance(b, SymStr):
        return str_eq(it, a, b)
    return a == b


def hm_find(it, m, k):
    for i, e in enumerate(m.entries):
        if deep_eq(it, e[0], k):
            return i
    return None


@model(r'^HashMap::<.*>::(new|with_capacity)$|<HashMap<.*> as (std::default::)?Default>::default$')
def m_hm_new(it, n, a):
    return HashMapV()


@model(r'^HashMap::<.*>::insert$')
def m_hm_insert(it, n, a):
    m = arg0(a)
    i = hm_find(it, m, a[1])
    if i is None:
        m.entries.append([a[1], a[2]])
        return none()
    old = m.entries[i][1]
    m.entries[i][1] = a[2]
    return some(old)


@model(r'^HashMap::<.*>::(get|get_mut)::<')
def m_hm_get(it, n, a):
    m = arg0(a)
    i = hm_find(it, m, a[1])
    return some(Ref(SlotCell(m.entries[i]))) if i is not None else none()


@model(r'^HashMap::<.*>::contains_key::<')
def m_hm_contains(it, n, a):
    return hm_find(it, arg0(a), a[1]) is not None


@model(r'^HashMap::<.*>::entry$')
def m_hm_entry(it, n, a):
    m = arg0(a)
    i = hm_find(it, m, a[1])
    return Agg('hash::Entry', [m, i, a[1]])


@model(r'hash_map::Entry::<.*>::(or_insert|or_insert_with|or_default)(::<.*>)?$')
def m_hm_or_insert(it, n, a):
    m, i, k = a[0].fields
    if i is None:
        if 'or_insert_with' in n:
            v = it.call_closure(a[1], [])
        elif 'or_default' in n:
            raise Unsupported(n)
        else:
            v = a[1]
        m.entries.append([k, v])
        i = len(m.entries) - 1
    return Ref(SlotCell(m.entries[i]))


@model(r'^HashMap::<.*>::(len)$')
def m_hm_len(it, n, a):
    return len(arg0(a).entries)


@model(r'^HashMap::<.*>::(iter|values|keys|into_iter|drain|into_values|into_keys)$|<&?HashMap<.*> as IntoIterator>::into_iter$')
def m_hm_iter(it, n, a):
    """hash map iteration order is arbitrary: every permutation (fresh decisions)"""
    m = arg0(a)
    items = list(m.entries)
    out = []
    if len(items) > 4:
        # beyond 4 entries: every rotation and the reverse (n + 1 orders) instead of n! - a stated bound
        pick = it.fresh('hash_pick_rot', 8)
        i = it.decide([pick == j for j in range(len(items) + 1)] + [z3.UGT(pick, len(items))])
        items = list(reversed(items)) if i >= len(items) else items[i:] + items[:i]
        out, items = items, []
    while items:
        if len(items) > 1:
            pick = it.fresh('hash_pick', 8)
            i = it.decide([pick == j for j in range(len(items))] + [z3.UGE(pick, len(items))])
            if i >= len(items):
                i = 0
        else:
            i = 0
        out.append(items.pop(i))
    it.env.setdefault('hash_iterated', []).append(n)
    if re.search(r'values$', n):
        return ListIter([Ref(SlotCell(e)) for e in out])
    if re.search(r'keys$', n):
        return ListIter([Ref(KeyCell(e)) for e in out])
    return ListIter([tup(Ref(KeyCell(e)), Ref(SlotCell(e))) for e in out])


def ordering(c):
    return Agg('Ordering', [], variant={-1: 'Less', 0: 'Equal', 1: 'Greater'}[c], disc=c)


@model(r'^<(String|str|&str|u8|u16|u32|u64|usize|i32|Option<.*>|\(.*\)) as (Ord|PartialOrd)>::(cmp|partial_cmp)$')
def m_cmp(it, n, a):
    c = key_cmp(it, a[0], a[1])
    return some(ordering(c)) if n.endswith('partial_cmp') else ordering(c)


@model(r'^Ordering::(reverse|then|is_eq|is_lt|is_gt|is_le|is_ge|is_ne)$')
def m_ordering_ops(it, n, a):
    d = a[0].disc if isinstance(a[0], Agg) else deref(a[0]).disc
    op = n.split('::')[-1]
    if op == 'reverse':
        return ordering(-d)
    if op == 'then':
        return a[0] if d != 0 else a[1]
    return {'is_eq': d == 0, 'is_lt': d < 0, 'is_gt': d > 0, 'is_le': d <= 0, 'is_ge': d >= 0, 'is_ne': d != 0}[op]


@model(r'^Vec::<.*>::dedup_by::<')
def m_dedup_by(it, n, a):
    v = arg0(a)
    if not v.items:
        return unit()
    out = [v.items[0]]
    for x in v.items[1:]:
        # same_bucket(&mut next, &mut last_kept): `next` is removed when it returns true
        if not it.truth(it.call_closure(a[1], [mkref(x), mkref(out[-1])])):
            out.append(x)
    v.items[:] = out
    return unit()


@model(r'str>::(strip_prefix|strip_suffix)::<')
def m_strip_prefix(it, n, a):
    s, p = arg0(a), deref(a[1])
    if isinstance(p, int):
        p = chr(p)
    if isinstance(s, str) and isinstance(p, str):
        if 'strip_prefix' in n:
            return some(s[len(p):]) if s.startswith(p) else none()
        return some(s[:len(s) - len(p)]) if s.endswith(p) else none()
    # abstract string: it may or may not carry the affix; when it does, the rest is some other string
    if it.truth(it.fresh('has_affix', 'bool')):
        return some(fresh_str(it, 'stripped'))
    return none()


@model(r'str>::(split|lines|chars|bytes|char_indices|split_whitespace)\b|<\[u8\]>::chunks|slice::<impl \[u8\]>::chunks')
def m_str_iterate(it, n, a):
    s = arg0(a)
    if isinstance(s, Agg) and s.path == 'Bytes':
        s = s.fields[0]
    if isinstance(s, str) and re.search(r'str>::chars', n):
        return ListIter([ord(c) for c in s])
    if isinstance(s, str) and re.search(r'str>::lines', n):
        return ListIter(s.splitlines())
    raise Unsupported('iteration over the characters / pieces of an abstract string: ' + n)


def type_align(it, module, inner):
    """WGSL AlignOf (naga proc/layouter.rs): scalar width; vecN: N=2 -> 2w, 3/4 -> 4w; matrix: align of its column vector; array: of its
    element; struct: max of the members"""
    sch = it.env['schema']
    conv = it.env['conv']
    E = {v['name']: v['disc'] for v in sch['enums']['TypeInner']}
    d = inner.disc
    if is_sym(d):
        d = it.concretize(d, sorted(E.values()))
    name = next(k for k, v in E.items() if v == d)
    f = inner.fields[name] if isinstance(inner.fields, dict) else inner.fields

    def u32(x):
        return z3.ZeroExt(32 - x.size(), x) if is_sym(x) and x.size() < 32 else x

    def vec_align(size_enum, width):
        sd = size_enum.disc
        if is_sym(sd):
            sd = it.concretize(sd, [2, 3, 4])
        return {2: 2, 3: 4, 4: 4}[sd] * u32(width)
    if name in ('Scalar', 'Atomic'):
        return u32(f[0].fields[1])
    if name == 'Vector':
        return vec_align(f[0], f[1].fields[1])
    if name == 'Matrix':
        return vec_align(f[1], f[2].fields[1])
    types = conv.get(module, 'types').fields[0].items
    if name == 'Array':
        b = f[0]
        if is_sym(b):
            b = it.concretize(b, list(range(len(types))))
        return type_align(it, module, conv.get(types[b], 'inner'))
    if name == 'Struct':
        best = 1
        for mb in f[0].items:
            t = conv.get(mb, 'ty')
            if is_sym(t):
                t = it.concretize(t, list(range(len(types))))
            al = type_align(it, module, conv.get(types[t], 'inner'))
            best = al if isinstance(al, int) and isinstance(best, int) and al > best else best
        return best
    return 1


@model(r'TypeLayout::to_stride$')
def m_to_stride(it, n, a):
    lay = arg0(a)
    size, al = lay.fields
    if isinstance(al, Opaque):
        raise Unsupported('alignment of this type is not modelled')
    if is_sym(size) or is_sym(al):
        sz = size if is_sym(size) else z3.BitVecVal(size, 32)
        az = al if is_sym(al) else z3.BitVecVal(al, 32)
        return z3.UDiv(sz + az - 1, az) * az
    return ((size + al - 1) // al) * al


@model(r'^Alignment::round_up$')
def m_align_round_up(it, n, a):
    al, x = deref(a[0]), a[1]
    if is_sym(al) or is_sym(x):
        az = al if is_sym(al) else z3.BitVecVal(al, 32)
        xz = x if is_sym(x) else z3.BitVecVal(x, 32)
        return z3.UDiv(xz + az - 1, az) * az
    return ((x + al - 1) // al) * al


@model(r'impl (naga::)?Literal>::(zero|one|new)$|^naga::Literal::(zero|one)$|^Literal::(zero|one)$')
def m_literal_zero(it, n, a):
    """transcription of naga-24.0.0 src/proc/mod.rs Literal::new(value, scalar)"""
    one = n.endswith('one')
    if n.endswith('new'):
        v, sc = a[0], a[1]
        if is_sym(v):
            raise Unsupported('Literal::new with a symbolic value')
        one = v == 1
    else:
        sc = a[0]
    sc = deref(sc)
    kind, width = sc.fields[0].disc, sc.fields[1]
    SK = {v['name']: v['disc'] for v in it.env['schema']['enums']['ScalarKind']}
    if is_sym(kind):
        kind = it.concretize(kind, sorted(SK.values()))
    if is_sym(width):
        width = it.concretize(width, [1, 2, 4, 8])
    conv = it.env['conv']
    table = {(SK['Float'], 8): ('F64', float(one)), (SK['Float'], 4): ('F32', float(one)), (SK['Uint'], 4): ('U32', int(one)), (SK['Sint'], 4): ('I32', int(one)),
             (SK['Uint'], 8): ('U64', int(one)), (SK['Sint'], 8): ('I64', int(one)), (SK['Bool'], 1): ('Bool', bool(one))}
    hit = table.get((kind, width))
    if hit is None:
        return none()
    return some(conv.enum('Literal', hit[0], [hit[1]]))


@model(r'impl (naga::)?TypeInner>::scalar$')
def m_type_inner_scalar(it, n, a):
    """naga proc/mod.rs TypeInner::scalar: Scalar | Vector | Matrix | Atomic -> Some(component scalar), else None"""
    inner = arg0(a)
    E = {v['name']: v['disc'] for v in it.env['schema']['enums']['TypeInner']}
    d = inner.disc
    if is_sym(d):
        d = it.concretize(d, sorted(E.values()))
    name = next(k for k, v in E.items() if v == d)
    f = inner.fields[name] if isinstance(inner.fields, dict) else inner.fields
    if name in ('Scalar', 'Atomic'):
        return some(copy_val(f[0]))
    if name == 'Vector':
        return some(copy_val(f[1]))
    if name == 'Matrix':
        return some(copy_val(f[2]))
    if name == 'ValuePointer':
        return some(copy_val(f[1]))
    return none()


@model(r'slice::<impl \[.*\]>::chunk_by::<')
def m_chunk_by(it, n, a):
    items = arg0(a)
    out, cur = [], []
    for i, x in enumerate(items):
        if cur and not it.truth(it.call_closure(a[1], [Ref(Cell(items), (i - 1,)), Ref(Cell(items), (i,))])):
            out.append(cur)
            cur = []
        cur.append(x)
    if cur:
        out.append(cur)
    return ListIter(out)


@model(r'slice::<impl \[.*\]>::(chunks|windows)$')
def m_chunks(it, n, a):
    items = arg0(a)
    k = conc_int(it, a[1], 'chunk size')
    if isinstance(items, Agg) and items.path == 'Bytes':
        raise Unsupported('byte chunks of an abstract string')
    if n.endswith('chunks'):
        return ListIter([items[i:i + k] for i in range(0, len(items), k)])
    return ListIter([items[i:i + k] for i in range(0, max(0, len(items) - k + 1))])


@model(r'^(std::result::)?Result::<.*>::(inspect|inspect_err)::<')
def m_res_inspect(it, n, a):
    isok, v = res_fork(it, a[0])
    if isok == ('inspect_err' not in n):
        it.call_closure(a[1], [mkref(v)])
    return a[0]


@model(r'^Option::<.*>::inspect::<')
def m_opt_inspect(it, n, a):
    s_, v = opt_fork(it, a[0])
    if s_:
        it.call_closure(a[1], [mkref(v)])
    return a[0]


@model(r'^<(String) as (std::default::)?Default>::default$')
def m_string_default(it, n, a):
    return ''


@model(r'^<(bool|u8|u16|u32|u64|usize|i32|i64) as (std::default::)?Default>::default$')
def m_prim_default(it, n, a):
    return False if '<bool ' in n else 0


@model(r'^<Option<.*> as (std::default::)?Default>::default$')
def m_opt_default(it, n, a):
    return none()


@model(r'^<(wgpu::)?ShaderStages as (std::default::)?Default>::default$')
def m_stages_default(it, n, a):
    return mkflags('wgpu::ShaderStages', 0)


@model(r'^HashSet::<.*>::clear$')
def m_hs_clear(it, n, a):
    arg0(a).items.clear()
    return unit()


@model(r'^HashMap::<.*>::clear$')
def m_hm_clear(it, n, a):
    arg0(a).entries.clear()
    return unit()


@model(r'^BTreeMap::<.*>::clear$')
def m_bt_clear(it, n, a):
    arg0(a).entries.clear()
    return unit()


@model(r'^HashMap::<.*>::remove::<')
def m_hm_remove(it, n, a):
    m = arg0(a)
    i = hm_find(it, m, a[1])
    return some(m.entries.pop(i)[1]) if i is not None else none()


@model(r'^HashMap::<.*>::is_empty$')
def m_hm_is_empty(it, n, a):
    return len(arg0(a).entries) == 0


@model(r'^<(std::collections::)?HashMap<.*> as (std::ops::)?Index<.*>>::index$')
def m_hm_index(it, n, a):
    m = arg0(a)
    i = hm_find(it, m, a[1])
    if i is None:
        raise Panic('HashMap index: key not found')
    return Ref(SlotCell(m.entries[i]))


@model(r'^<(std::collections::)?BTreeMap<.*> as (std::ops::)?Index<.*>>::index$')
def m_bt_index(it, n, a):
    m = arg0(a)
    i, found = bt_find(it, m, a[1])
    if not found:
        raise Panic('BTreeMap index: key not found')
    return Ref(SlotCell(m.entries[i]))


@model(r'^<Vec<.*> as (std::ops::)?(Index|IndexMut)<usize>>::(index|index_mut)$|^<\[.*\] as (std::ops::)?Index<usize>>::index$')
def m_vec_index(it, n, a):
    v = arg0(a)
    items = v.items if isinstance(v, VecV) else v
    i = a[1]
    if is_sym(i):
        i = it.concretize(i, list(range(len(items))))
        if i is None:
            raise Panic('index out of bounds')
    if not (0 <= i < len(items)):
        raise Panic('index out of bounds')
    return Ref(Cell(v), (i,))


@model(r'^Child::(wait|try_wait|kill)$')
def m_child_wait(it, n, a):
    f = it.env.get('child_wait')
    if f is None:
        raise Unsupported('no environment model for ' + n)
    return f(it, a[0], n.split('::')[-1])


@model(r'<ChildStdout as (std::io::)?Read>::(read_to_string|read_to_end)$|^(std::io::)?read_to_string::<')
def m_child_read(it, n, a):
    f = it.env.get('child_read')
    if f is None:
        raise Unsupported('no environment model for ' + n)
    return f(it, a[0], a[1] if len(a) > 1 else None)


# ---- `vec![a, b]` lowers to Box::new_uninit + a write through raw projections + box_assume_init_into_vec_unsafe
@model(r'Box::<\[.*\]>::new_uninit$')
def m_box_new_uninit(it, n, a):
    cell = Cell(Agg('MaybeUninit', [None, Agg('ManuallyDrop', [Agg('MaybeDangling', [None])])]))
    return Agg('BoxRaw', [Agg('Unique', [Ref(cell)])])


@model(r'box_assume_init_into_vec_unsafe')
def m_box_into_vec(it, n, a):
    b = a[0]
    payload = b.fields[0].fields[0].get().fields[1].fields[0].fields[0]
    if payload is None:
        raise Unsupported('vec! payload was never written')
    return VecV(list(payload))


@model(r'slice::<impl \[.*\]>::into_vec')
def m_into_vec(it, n, a):
    v = deref(a[0])
    return VecV(list(v.items if isinstance(v, VecV) else v))


@model(r'bool>::then_some::<')
def m_then_some(it, n, a):
    return some(a[1]) if it.truth(a[0]) else none()


@model(r'bool>::then::<')
def m_then(it, n, a):
    return some(it.call_closure(a[1], [])) if it.truth(a[0]) else none()


class MapWhileIter(IterBase):
    def __init__(self, src, f):
        self.src, self.f, self.done = src, f, False

    def nxt(self, it):
        if self.done:
            return STOP
        x = self.src.nxt(it)
        if x is STOP:
            return STOP
        r = it.call_closure(self.f, [x])
        s_, v = opt_fork(it, r)
        if not s_:
            self.done = True
            return STOP
        return v


class TakeWhileIter(IterBase):
    def __init__(self, src, f, skip):
        self.src, self.f, self.skip, self.state = src, f, skip, 0

    def nxt(self, it):
        while True:
            x = self.src.nxt(it)
            if x is STOP:
                return STOP
            if self.skip:
                if self.state == 1 or not it.truth(it.call_closure(self.f, [mkref(x)])):
                    self.state = 1
                    return x
                continue
            if self.state == 1:
                return STOP
            if it.truth(it.call_closure(self.f, [mkref(x)])):
                return x
            self.state = 1
            return STOP


@model(r'as Iterator>::map_while::<')
def m_iter_map_while(it, n, a):
    return MapWhileIter(a[0], a[1])


@model(r'as Iterator>::(take_while|skip_while)::<')
def m_iter_take_while(it, n, a):
    return TakeWhileIter(a[0], a[1], 'skip_while' in n)


@model(r'as Iterator>::try_for_each::<')
def m_iter_try_for_each(it, n, a):
    src = deref(a[0])
    while True:
        x = src.nxt(it)
        if x is STOP:
            return ok(unit()) if 'Result' in n or True else unit()
        r = it.call_closure(a[1], [x])
        # R: Try - Result<(), E> / Option<()> / ControlFlow
        if r.path in ('Result',):
            isok, v = res_fork(it, r)
            if not isok:
                return err(v)
        elif r.path == 'Option':
            s_, v = opt_fork(it, r)
            if not s_:
                return none()
        elif r.path == 'ControlFlow':
            if r.disc == 1:
                return r
        else:
            raise Unsupported('try_for_each with ' + r.path)


@model(r'as Iterator>::try_fold::<')
def m_iter_try_fold(it, n, a):
    src = deref(a[0])
    acc = a[1]
    while True:
        x = src.nxt(it)
        if x is STOP:
            return ok(acc)
        r = it.call_closure(a[2], [acc, x])
        isok, v = res_fork(it, r)
        if not isok:
            return err(v)
        acc = v
