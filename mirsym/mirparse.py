"""Spike: parser for rustc -Zunpretty=mir text (subset actually emitted for this crate)."""
import re
from dataclasses import dataclass, field


@dataclass
class Body:
    name: str
    nargs: int
    locals: dict            # index -> type string
    blocks: dict            # bb index -> (list[stmt], term)
    ret_ty: str = ''


def split_top(s, sep=','):
    out, depth, cur, i = [], 0, '', 0
    instr = False
    while i < len(s):
        c = s[i]
        if instr:
            cur += c
            if c == '\\':
                cur += s[i + 1]; i += 1
            elif c == '"':
                instr = False
        elif c == '"':
            instr = True; cur += c
        elif c in '([{<':
            # '<' only counts inside types; treat "->" and comparison-free MIR safely
            depth += 1; cur += c
        elif c in ')]}>':
            if c == '>' and cur.endswith('-'):
                cur += c
            else:
                depth -= 1; cur += c
        elif c == sep and depth == 0:
            out.append(cur.strip()); cur = ''
        else:
            cur += c
        i += 1
    if cur.strip():
        out.append(cur.strip())
    return out


def match_paren(s, i):
    """s[i] is an opening bracket; return index of the matching close (string aware)."""
    op = s[i]; cl = {'(': ')', '[': ']', '{': '}'}[op]
    depth, j, instr = 0, i, False
    while j < len(s):
        c = s[j]
        if instr:
            if c == '\\': j += 1
            elif c == '"': instr = False
        elif c == '"': instr = True
        elif c == op: depth += 1
        elif c == cl:
            depth -= 1
            if depth == 0: return j
        j += 1
    raise ValueError('unbalanced: ' + s)


# ---- places -------------------------------------------------------------------------------
def parse_place(s):
    """returns (local:int, [proj...]); proj = ('deref',) | ('field', n) | ('downcast', name) | ('index', local) | ('constindex', n)"""
    s = s.strip()
    p, rest = _place(s)
    assert rest.strip() == '', (s, rest)
    return p


def _place(s):
    s = s.lstrip()
    if s[0] == '_':
        m = re.match(r'_(\d+)', s)
        base = (int(m.group(1)), [])
        rest = s[m.end():]
    elif s[0] == '(':
        j = match_paren(s, 0)
        inner = s[1:j].strip()
        rest = s[j + 1:]
        if inner.startswith('*'):
            b, r = _place(inner[1:]); assert r.strip() == ''
            base = (b[0], b[1] + [('deref',)])
        else:
            b, r = _place(inner)
            r = r.strip()
            m = re.match(r'\.(\d+)\s*:', r)
            if m:
                base = (b[0], b[1] + [('field', int(m.group(1)))])
            elif r.startswith('as '):
                base = (b[0], b[1] + [('downcast', r[3:].strip())])
            else:
                raise ValueError('place? ' + s)
    else:
        raise ValueError('place? ' + s)
    while rest.startswith('['):
        j = match_paren(rest, 0)
        idx = rest[1:j]
        if idx.startswith('_'):
            base = (base[0], base[1] + [('index', int(idx[1:]))])
        else:
            m = re.match(r'(-?\d+) of (\d+)', idx)
            base = (base[0], base[1] + [('constindex', int(m.group(1)))])
        rest = rest[j + 1:]
    return base, rest


# ---- operands / rvalues ---------------------------------------------------------------------
def parse_operand(s):
    s = s.strip()
    if s.startswith('no_retag '): s = s[9:]
    if s.startswith('copy '): return ('copy', parse_place(s[5:]))
    if s.startswith('move '): return ('move', parse_place(s[5:]))
    if s.startswith('const '): return ('const', s[6:].strip())
    if re.match(r'^[\w:<>&\[\], \'{}#@./()-]+$', s) and not s.startswith('_'):
        return ('const', 'ZeroSized: ' + s)        # a function item used as a value (e.g. `.map(String::from)`)
    raise ValueError('operand? ' + s)


BINOPS = {'Add', 'Sub', 'Mul', 'Div', 'Rem', 'BitAnd', 'BitOr', 'BitXor', 'Shl', 'Shr', 'Eq', 'Ne', 'Lt', 'Le', 'Gt', 'Ge',
          'AddWithOverflow', 'SubWithOverflow', 'MulWithOverflow', 'AddUnchecked', 'SubUnchecked', 'Cmp', 'Offset'}
UNOPS = {'Not', 'Neg', 'PtrMetadata'}


def parse_rvalue(s):
    s = s.strip()
    if s.startswith('no_retag '): s = s[9:]
    if s.startswith(('copy ', 'move ', 'const ')):
        m = re.search(r'\s+as\s+(.+?)\s+\((\w+(\(.*\))?)\)$', s)
        if m and not s.startswith('const "'):
            return ('cast', parse_operand(s[:m.start()]), m.group(1), m.group(2))
        return ('use', parse_operand(s))
    if s.startswith('&raw '):
        return ('ref', parse_place(re.sub(r'^&raw (const|mut) (\(fake\) )?', '', s)))
    if s.startswith('&'):
        t = re.sub(r"^&('?\w+ )?(mut |fake shallow |fake deep )?", '', s)
        return ('ref', parse_place(t))
    m = re.match(r'(\w+)\((.*)\)$', s)
    if m and m.group(1) in BINOPS:
        a, b = split_top(m.group(2))
        return ('binop', m.group(1), parse_operand(a), parse_operand(b))
    if m and m.group(1) in UNOPS:
        return ('unop', m.group(1), parse_operand(m.group(2)))
    if m and m.group(1) == 'discriminant':
        return ('discriminant', parse_place(m.group(2)))
    if m and m.group(1) == 'Len':
        return ('len', parse_place(m.group(2)))
    if m and m.group(1) == 'CopyForDeref':
        return ('use', ('copy', parse_place(m.group(2))))
    if s.startswith('(') and match_paren(s, 0) == len(s) - 1:
        items = split_top(s[1:-1])
        return ('tuple', [parse_operand(x) for x in items])
    if s.startswith('[') and match_paren(s, 0) == len(s) - 1:
        inner = s[1:-1]
        if ';' in inner and not inner.strip().startswith('const "'):
            a, n = inner.rsplit(';', 1)
            return ('repeat', parse_operand(a), n.strip())
        return ('array', [parse_operand(x) for x in split_top(inner)])
    if s.startswith('{closure@'):
        j = s.index('}')
        name = s[:j + 1]
        rest = s[j + 1:].strip()
        caps = []
        if rest.startswith('{'):
            for f in split_top(rest[1:-1]):
                k, v = f.split(':', 1)
                caps.append(parse_operand(v))
        return ('closure', name, caps)
    # aggregate: Path { f: op, .. } | Path(op, ..) | Path
    body = None
    path = s
    if s.endswith(')') or s.endswith('}'):
        cl = s[-1]; op = '(' if cl == ')' else '{'
        depth, j = 0, len(s) - 1
        while j >= 0:
            if s[j] == cl: depth += 1
            elif s[j] == op:
                depth -= 1
                if depth == 0: break
            j -= 1
        path, body = s[:j].strip(), s[j:]
    if body is None:
        return ('adt', path, [], None)
    if body.startswith('{'):
        names, ops = [], []
        for f in split_top(body[1:-1]):
            k, v = f.split(':', 1)
            names.append(k.strip()); ops.append(parse_operand(v))
        return ('adt', path, ops, names)
    return ('adt', path, [parse_operand(x) for x in split_top(body[1:-1])], None)


# ---- terminators ----------------------------------------------------------------------------
def parse_targets(s):
    """'[return: bb1, unwind continue]' or 'unwind continue' or 'bb3'"""
    s = s.strip()
    d = {}
    if s.startswith('['):
        for it in split_top(s[1:-1]):
            if ':' in it:
                k, v = it.split(':', 1)
                d[k.strip()] = v.strip()
    elif s.startswith('bb'):
        d['return'] = s
    return d


def bbnum(s):
    m = re.match(r'bb(\d+)', s.strip())
    return int(m.group(1)) if m else None


def parse_stmt(line):
    s = line.strip().rstrip(';')
    if s in ('return', 'unreachable', 'resume', 'abort', 'terminate(abi)', 'terminate(cleanup)'):
        return ('term', (s.split('(')[0],))
    if s.startswith('goto -> '):
        return ('term', ('goto', bbnum(s[8:])))
    if s.startswith('switchInt('):
        j = match_paren(s, 9)
        op = parse_operand(s[10:j])
        arms = s[j + 1:].strip()
        assert arms.startswith('->')
        arms = arms[2:].strip()
        tg, other = [], None
        for it in split_top(arms[1:-1]):
            k, v = it.split(':', 1)
            if k.strip() == 'otherwise': other = bbnum(v)
            else: tg.append((int(k.strip()), bbnum(v)))
        return ('term', ('switch', op, tg, other))
    if s.startswith('drop('):
        j = match_paren(s, 4)
        t = parse_targets(s[j + 1:].strip()[2:])
        return ('term', ('drop', parse_place(s[5:j]), bbnum(t.get('return', ''))))
    if s.startswith('assert('):
        j = match_paren(s, 6)
        args = split_top(s[7:j])
        cond = args[0].strip()
        neg = cond.startswith('!')
        if neg: cond = cond[1:]
        t = parse_targets(s[j + 1:].strip()[2:])
        return ('term', ('assert', parse_operand(cond), not neg, args[1], bbnum(t.get('success', ''))))
    if s.startswith(('StorageLive', 'StorageDead', 'PlaceMention', 'FakeRead', 'AscribeUserType', 'nop', 'Retag', 'Coverage',
                     'ConstEvalCounter', 'Deinit', 'BackwardIncompatibleDropHint')):
        return ('nop',)
    if s.startswith('falseEdge') or s.startswith('falseUnwind'):
        m = re.search(r'real: (bb\d+)', s)
        return ('term', ('goto', bbnum(m.group(1))))
    m = re.match(r'discriminant\((.*)\) = (\d+)$', s)
    if m:
        return ('setdisc', parse_place(m.group(1)), int(m.group(2)))
    # assignment (maybe a call terminator)
    # find top-level ' = '
    depth, i, instr = 0, 0, False
    eq = None
    while i < len(s):
        c = s[i]
        if instr:
            if c == '\\': i += 1
            elif c == '"': instr = False
        elif c == '"': instr = True
        elif c in '([{': depth += 1
        elif c in ')]}': depth -= 1
        elif depth == 0 and s.startswith(' = ', i):
            eq = i; break
        i += 1
    if eq is None:
        raise ValueError('stmt? ' + s)
    lhs, rhs = s[:eq], s[eq + 3:]
    # call terminator?  "<callee>(args) -> [..]" / "-> unwind continue" / "-> bbN"
    m = re.search(r'\)\s*->\s*(\[.*\]|unwind \w+|bb\d+)$', rhs)
    if m:
        close = m.start()
        # find the opening paren matching this close
        depth, j, = 0, close
        while j >= 0:
            if rhs[j] == ')': depth += 1
            elif rhs[j] == '(':
                depth -= 1
                if depth == 0: break
            j -= 1
        callee = rhs[:j].strip()
        args = [parse_operand(a) for a in split_top(rhs[j + 1:close])]
        t = parse_targets(m.group(1))
        return ('term', ('call', parse_place(lhs), callee, args, bbnum(t['return']) if 'return' in t else None))
    return ('assign', parse_place(lhs), parse_rvalue(rhs))


class Bodies(dict):
    """name -> Body, plus `allocs`: allocN -> name of the static it is the memory of"""
    allocs = None
    inline_consts = None


def parse_mir(text):
    bodies = Bodies()
    bodies.allocs = {m.group(1): m.group(2) for m in re.finditer(r'^(alloc\d+) \(static: ([\w:]+)', text, re.M)}
    # `const NAME: T = const VALUE;` (constants whose initialiser is a plain literal are printed on one line)
    bodies.inline_consts = {m.group(1): m.group(2) for m in re.finditer(r'^const ([\w:{}#]+): [^=]+ = const (.+);$', text, re.M)}
    lines = text.split('\n')
    i = 0
    while i < len(lines):
        ln = lines[i]
        m = re.match(r'^(fn|const|static) (.+?)(\((.*)\) -> (.+?))? \{$|^(const|static) (.+?): (.+?) = \{$', ln)
        if ln.startswith('fn ') and ln.endswith('{'):
            hdr = ln[3:-1].strip()
            p = hdr.index('(')
            # name may contain '(' only in closures "{closure#0}" -> no parens; impl paths have "<impl at ...>" no parens
            name = hdr[:p]
            j = match_paren(hdr, p)
            args = split_top(hdr[p + 1:j])
            nargs = len(args)
            ret = hdr[j + 1:].strip()
            ret = ret[2:].strip() if ret.startswith('->') else '()'
        elif (ln.startswith('const ') or ln.startswith('static ')) and ln.endswith('= {'):
            hdr = ln.split(' ', 1)[1]
            name = hdr.split(': ', 1)[0]
            if name.startswith('mut '):
                name = name[4:]
            nargs, ret, args = 0, '', []
        else:
            i += 1; continue
        locs, blocks = {}, {}
        for a in args:
            mm = re.match(r'_(\d+): (.*)', a)
            locs[int(mm.group(1))] = mm.group(2)
        i += 1
        cur = None
        while i < len(lines) and lines[i] != '}':
            s = lines[i].strip()
            mm = re.match(r'let (mut )?_(\d+): (.*);$', s)
            if mm:
                locs[int(mm.group(2))] = mm.group(3)
            else:
                mm = re.match(r'bb(\d+)( \(cleanup\))?: \{$', s)
                if mm:
                    cur = int(mm.group(1)); blocks[cur] = [[], None]
                elif cur is not None and s and s != '}' and not s.startswith('//'):
                    try:
                        st = parse_stmt(s)
                    except (ValueError, IndexError, KeyError, AttributeError) as e:
                        # a construct this parser does not know: fail lazily, only if the statement is ever executed
                        st = ('unparsed', s, f'{type(e).__name__}: {e}')
                    if st[0] == 'term': blocks[cur][1] = st[1]
                    elif st[0] != 'nop': blocks[cur][0].append(st)
                elif s == '}' and cur is not None:
                    cur = None
            i += 1
        bodies[name] = Body(name, nargs, locs, blocks, ret)
        i += 1
    return bodies


if __name__ == '__main__':
    import sys
    b = parse_mir(open(sys.argv[1]).read())
    print(len(b), 'bodies')
    nb = sum(len(x.blocks) for x in b.values())
    print(nb, 'blocks')
