"""Field order / variant order / discriminants / field types of naga and wgpu-types items, read from the locked crate
sources in the cargo registry (MIR addresses struct fields by index and enum variants by discriminant), plus the
conversion of `oracle dump` JSON (serde of the real naga::Module) into interpreter values."""
import glob
import json
import os
import re
from .values import *

REG = '/root/.cargo/registry/src/*/'


def strip_comments(src):
    src = re.sub(r'//[^\n]*', '', src)
    return re.sub(r'/\*.*?\*/', '', src, flags=re.S)


def strip_attrs(body):
    out, i = [], 0
    n = len(body)
    while i < n:
        if body.startswith('#[', i) or body.startswith('#![', i):
            j = body.index('[', i)
            depth = 0
            while True:
                if body[j] == '[':
                    depth += 1
                elif body[j] == ']':
                    depth -= 1
                    if depth == 0:
                        break
                j += 1
            i = j + 1
        else:
            out.append(body[i])
            i += 1
    return ''.join(out)


def split_top(s, sep=','):
    out, depth, cur = [], 0, ''
    for c in s:
        if c in '([{<':
            depth += 1
        elif c in ')]}>':
            depth -= 1
        if c == sep and depth == 0:
            out.append(cur.strip())
            cur = ''
        else:
            cur += c
    if cur.strip():
        out.append(cur.strip())
    return out


def balanced(src, i):
    depth, j = 0, i
    while True:
        if src[j] == '{':
            depth += 1
        elif src[j] == '}':
            depth -= 1
            if depth == 0:
                return j
        j += 1


def extract(path):
    src = strip_attrs(strip_comments(open(path).read()))
    structs, enums = {}, {}
    for m in re.finditer(r'\bpub (struct|enum) (\w+)(<[^>{]*>)?\s*(\{|\(|;)', src):
        kind, name = m.group(1), m.group(2)
        if m.group(4) == '{':
            j = balanced(src, m.end() - 1)
            items = split_top(src[m.end():j])
            if kind == 'struct':
                fs = []
                for it in items:
                    it = re.sub(r'^pub(\([^)]*\))? ', '', it)
                    if ':' not in it:
                        continue
                    n, t = it.split(':', 1)
                    fs.append((n.strip(), ' '.join(t.split())))
                structs[name] = fs
            else:
                vs, next_d = [], 0
                for it in items:
                    mm = re.match(r'(\w+)\s*(\{(.*)\}|\((.*)\))?\s*(=\s*(\w+))?$', it, re.S)
                    if mm is None:
                        continue
                    if mm.group(6):
                        next_d = int(mm.group(6), 0)
                    if mm.group(3) is not None:
                        fields = [(f.split(':', 1)[0].strip(), ' '.join(f.split(':', 1)[1].split())) for f in split_top(mm.group(3))]
                    elif mm.group(4) is not None:
                        fields = [(i, ' '.join(t.split())) for i, t in enumerate(split_top(mm.group(4)))]
                    else:
                        fields = None
                    vs.append({'name': mm.group(1), 'disc': next_d, 'fields': fields})
                    next_d += 1
                enums[name] = vs
        elif m.group(4) == '(' and kind == 'struct':
            structs[name] = [('0', '?')]
    return structs, enums


def bitflags(path):
    """bitflags! { pub struct Name: u32 { const A = 0x1; const B = 1 << 2; const C = Self::A.bits() | Self::B.bits(); } }"""
    src = strip_attrs(strip_comments(open(path).read()))
    out = {}
    for m in re.finditer(r'pub struct (\w+): (u\d+) \{', src):
        j = balanced(src, m.end() - 1)
        flags = {}
        for c in re.finditer(r'const (\w+) = ([^;]+);', src[m.end():j]):
            expr = c.group(2)
            expr = re.sub(r'Self::(\w+)\.bits\(\)', lambda q: str(flags[q.group(1)]), expr)
            expr = re.sub(r'Self::(\w+)\.bits', lambda q: str(flags[q.group(1)]), expr)
            try:
                flags[c.group(1)] = int(eval(expr, {'__builtins__': {}}))
            except Exception:
                flags[c.group(1)] = None
        out[m.group(1)] = {'bits': int(m.group(2)[1:]), 'flags': flags}
    return out


def load_schema():
    naga = glob.glob(REG + 'naga-24.0.0/src')[0]
    wt = glob.glob(REG + 'wgpu-types-24.0.0/src')[0]
    S, E, B = {}, {}, {}
    for f in ['lib.rs', 'block.rs', 'arena/mod.rs', 'arena/handle.rs', 'arena/unique_arena.rs', 'span.rs', 'proc/layouter.rs',
              'diagnostic_filter.rs']:
        p = os.path.join(naga, f)
        if os.path.exists(p):
            s, e = extract(p)
            S.update(s)
            E.update(e)
            B.update(bitflags(p))
    s, e = extract(os.path.join(wt, 'lib.rs'))
    wgpu_enums = {k: v for k, v in e.items() if k in ('VertexFormat', 'TextureFormat', 'TextureViewDimension', 'VertexStepMode')}
    B['wgpu::ShaderStages'] = bitflags(os.path.join(wt, 'lib.rs'))['ShaderStages']
    # wgpu_types::VertexFormat has explicit discriminants; keep it under its own key
    E['VertexFormat'] = wgpu_enums['VertexFormat']
    B.update({k: v for k, v in bitflags(os.path.join(naga, 'valid', 'mod.rs')).items()})
    return {'structs': S, 'enums': E, 'bitflags': B}


# ------------------------------------------------------------------------------------------- JSON -> values
PRIMS = {'u8', 'u16', 'u32', 'u64', 'usize', 'i8', 'i16', 'i32', 'i64', 'bool', 'f32', 'f64', 'Bytes', 'Alignment'}


class Conv:
    def __init__(self, schema):
        self.S, self.E, self.B = schema['structs'], schema['enums'], schema['bitflags']

    def variant(self, ty, name):
        return next(v for v in self.E[ty] if v['name'] == name)

    def conv(self, j, ty):
        ty = ty.strip()
        ty = re.sub(r'^crate::', '', ty)
        ty = re.sub(r"^&'static ", '', ty)
        m = re.match(r'(\w+)<(.*)>$', ty)
        if m:
            outer, inner = m.group(1), m.group(2)
            if outer in ('Arena', 'UniqueArena'):
                return Agg(outer, [VecV([self.conv(x, inner) for x in j])])
            if outer == 'Vec':
                return VecV([self.conv(x, inner) for x in j])
            if outer == 'Option':
                return none() if j is None else some(self.conv(j, inner))
            if outer == 'Handle':
                return j
            if outer == 'Box':
                return self.conv(j, inner)
            if outer == 'Range':
                return Opaque(j)
            return Opaque(j)
        m = re.match(r'\[(.*); (\d+)\]$', ty)
        if m:
            return [self.conv(x, m.group(1)) for x in j]
        if ty == 'String':
            return j
        if ty == 'Block':
            return Agg('Block', [VecV([self.conv(x, 'Statement') for x in j])])
        if ty in PRIMS:
            return j
        if ty == 'NonZeroU32' or ty == 'std::num::NonZeroU32':
            return j
        if ty in self.B:
            return self.flags(ty, j)
        if ty in self.S:
            return Agg(ty, [self.conv(j.get(f) if isinstance(j, dict) else None, t) if (isinstance(j, dict) and f in j) else Opaque(None)
                            for f, t in self.S[ty]])
        if ty in self.E:
            if isinstance(j, str):
                name, payload = j, None
            else:
                (name, payload), = j.items()
            v = self.variant(ty, name)
            if v['fields'] is None:
                fields = []
            elif isinstance(v['fields'][0][0], int):
                vals = [payload] if len(v['fields']) == 1 else payload
                fields = [self.conv(x, t) for x, (_, t) in zip(vals, v['fields'])]
            else:
                fields = [self.conv(payload[f], t) for f, t in v['fields']]
            return Agg(ty, fields, variant=name, disc=v['disc'])
        return Opaque(j)

    def flags(self, ty, j):
        b = self.B[ty]
        if isinstance(j, int):
            return j
        bits = 0
        for n in [x.strip() for x in j.split('|') if x.strip()]:
            bits |= b['flags'][n] if n in b['flags'] else int(n, 0)
        return mkflags(ty, bits)

    def module(self, dump):
        m = self.conv(dump['module'], 'Module')
        m.layouts = dump.get('layouts')
        m.sizes = dump.get('sizes')
        return m

    # handy accessors used by harnesses --------------------------------------------------------------
    def fidx(self, ty, field):
        return [f for f, _ in self.S[ty]].index(field)

    def get(self, agg, field):
        return agg.fields[self.fidx(agg.path, field)]

    def set(self, agg, field, v):
        agg.fields[self.fidx(agg.path, field)] = v

    def enum(self, ty, name, fields=()):
        v = self.variant(ty, name)
        return Agg(ty, list(fields), variant=name, disc=v['disc'])

    def sym_enum(self, ty, disc, payloads=None):
        """enum value with a symbolic discriminant; payloads: {variant: [field values]} for variants with data"""
        return Agg(ty, dict(payloads or {}), variant=None, disc=disc)


def mkflags(ty, bits):
    """bitflags value: struct Name(InternalBitFlags(bits))"""
    return Agg(ty, [Agg('InternalBitFlags', [bits])])


def flag_bits(v):
    v = deref(v)
    if isinstance(v, Agg):
        return v.fields[0].fields[0]
    return v
