"""Client for the native oracle (the real wgsl_to_wgpu + naga, see /verif/oracle)."""
import json
import os
import subprocess

VERIF = os.path.dirname(os.path.dirname(os.path.abspath(__file__)))
CACHE = os.environ.get('VERIF_CACHE') or os.path.join(VERIF, '.cache')      # dev only: parallel runs against copies of the repository
BIN = os.path.join(CACHE, 'oracle-target', 'debug', 'oracle')


class Oracle:
    def __init__(self, env=None):
        self.p = subprocess.Popen([BIN], stdin=subprocess.PIPE, stdout=subprocess.PIPE, text=True, bufsize=1, env=env)
        self.calls = 0
        self.env = env

    def req(self, **kw):
        self.calls += 1
        try:
            self.p.stdin.write(json.dumps(kw) + '\n')
            self.p.stdin.flush()
            import select
            ready, _, _ = select.select([self.p.stdout], [], [], kw.get('_timeout', 300))
            if not ready:
                # the helper hangs (e.g. a formatter that never terminates): kill it and say so
                self.p.kill()
                self.p.wait()
                self.p = subprocess.Popen([BIN], stdin=subprocess.PIPE, stdout=subprocess.PIPE, text=True, bufsize=1, env=self.env)
                return {'hang': True}
            line = self.p.stdout.readline()
        except BrokenPipeError:
            line = ''
        if not line:
            # the helper died (e.g. abort): restart and report
            rc = self.p.poll()
            self.p = subprocess.Popen([BIN], stdin=subprocess.PIPE, stdout=subprocess.PIPE, text=True, bufsize=1, env=self.env)
            return {'crash': rc}
        return json.loads(line)

    def dump(self, wgsl, caps=None):
        return self.req(cmd='dump', wgsl=wgsl) if caps is None else self.req(cmd='dump', wgsl=wgsl, caps=caps)

    def gen(self, wgsl, options=None, include=None):
        return self.req(cmd='gen', wgsl=wgsl, options=options or {}, include=include)

    def lex(self, text):
        return self.req(cmd='lex', text=text)

    def emit(self, wgsl, options=None):
        return self.req(cmd='emit', wgsl=wgsl, options=options or {})

    def close(self):
        try:
            self.p.stdin.close()
            self.p.wait(timeout=5)
        except Exception:
            self.p.kill()

    def concurrent(self, sources, options=None, rounds=4):
        return self.req(cmd='concurrent', sources=sources, options=options or {}, rounds=rounds)

    def seq(self, steps):
        return self.req(cmd='seq', steps=steps)
