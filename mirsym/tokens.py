"""Token utilities: conversion from `oracle lex` JSON, canonical form for comparison, and structural decoders that
turn emitted token trees into facts (items, struct fields, expressions)."""
import re
import struct
import z3
from .values import *


MERGE = {'::', '->', '==', '..', '=>', '&&', '||', '!=', '<=', '>='}


def from_json(js):
    out = []
    joint = False
    for t in js:
        if 'i' in t:
            out.append(Tok('ident', t['i']))
            joint = False
        elif 'p' in t:
            if joint and out and out[-1].k == 'punct' and out[-1].v + t['p'] in MERGE:
                out[-1] = Tok('punct', out[-1].v + t['p'])
            else:
                out.append(Tok('punct', t['p']))
            joint = bool(t.get('j'))
            continue
        elif 'g' in t:
            out.append(Tok('group', (t['g'], from_json(t['t']))))
        else:
            if 's' in t:
                out.append(Tok('lit', ('string', t['s'])))
            else:
                out.append(Tok('lit', ('raw', t['l'])))
        joint = False
    return out


def f32_display(x):
    import numpy as np
    return np.format_float_positional(np.float32(x), unique=True, trim='-')


def f64_display(x):
    import numpy as np
    return np.format_float_positional(np.float64(x), unique=True, trim='-')


def lit_text(kind, v):
    """text proc_macro2 gives the literal (concrete values only)"""
    if is_sym(v):
        v = z3.simplify(v)
        if z3.is_bv_value(v):
            v = v.as_long()
        elif z3.is_fp_value(v):
            v = fp_to_float(v)
        else:
            return ('sym', kind, str(v))
    if kind == 'usize_unsuffixed':
        return str(v)
    if kind in ('u8', 'u16', 'u32', 'u64', 'usize'):
        return f'{v}{kind}'
    if kind in ('i8', 'i16', 'i32', 'i64', 'isize'):
        w = int(kind[1:]) if kind != 'isize' else 64
        if v >= 1 << (w - 1):
            v -= 1 << w
        return f'{v}{kind}'
    if kind == 'f32':
        return f32_display(v) + 'f32'
    if kind == 'f64':
        return f64_display(v) + 'f64'
    if kind == 'raw':
        return v
    raise ValueError(kind)


def fp_to_float(v):
    s = v.sbits() + v.ebits()
    bv = z3.simplify(z3.fpToIEEEBV(v)).as_long()
    if s == 32:
        return struct.unpack('<f', struct.pack('<I', bv))[0]
    return struct.unpack('<d', struct.pack('<Q', bv))[0]


def canon(toks):
    """canonical nested list: ('i', name) ('p', ch) ('l', text) ('s', value) ('g', delims, [...]); a trailing comma
    before a closing delimiter is dropped (prettyplease adds them)"""
    out = []
    for t in toks:
        if t.k == 'ident':
            out.append(('i', t.v if isinstance(t.v, str) else repr(t.v)))
        elif t.k == 'punct':
            if t.v == ';' and out and out[-1][0] == 'g' and out[-1][1] == '{}':
                continue        # `if .. {..} ;` : prettyplease drops the empty statement; dropped on both sides
            for ch in t.v:
                out.append(('p', ch))
        elif t.k == 'group':
            inner = canon(t.v[1])
            if inner and inner[-1] == ('p', ','):
                inner = inner[:-1]
            out.append(('g', t.v[0], inner))
        else:
            kind, v = t.v
            if kind == 'string':
                out.append(('s', v if isinstance(v, str) else repr(v)))
            else:
                tx = lit_text(kind, v)
                if isinstance(tx, str) and tx.startswith('-'):
                    out.append(('p', '-'))
                    tx = tx[1:]
                out.append(('l', tx))
    return out


def first_diff(a, b, path=''):
    """first position where two canonical token lists differ, as a string (None when equal)"""
    for i, (x, y) in enumerate(zip(a, b)):
        if x == y:
            continue
        if x[0] == 'g' and y[0] == 'g' and x[1] == y[1]:
            return first_diff(x[2], y[2], f'{path}/{i}{x[1][0]}')
        return f'{path}/{i}: {short(x)} != {short(y)}   context: {" ".join(short(t) for t in a[max(0, i - 6):i])}'
    if len(a) != len(b):
        n = min(len(a), len(b))
        return f'{path}: length {len(a)} != {len(b)}; extra: {" ".join(short(t) for t in (a[n:] or b[n:])[:8])}'
    return None


def short(t):
    if t[0] == 'g':
        return t[1][0] + '…' + t[1][1]
    return str(t[1])


# ---------------------------------------------------------------------------------------------- structural decoding
def split_commas(toks):
    """split a token list at top-level commas (angle brackets are tracked so `SMatrix<f32, 2, 3>` stays together)"""
    out, cur, depth = [], [], 0
    prev = None
    for t in toks:
        if t.k == 'punct' and t.v == '<':
            depth += 1
        elif t.k == 'punct' and t.v == '>' and depth > 0:
            depth -= 1
        elif t.k == 'punct' and t.v == '->':
            pass
        if t.k == 'punct' and t.v == ',' and depth == 0:
            out.append(cur)
            cur = []
        else:
            cur.append(t)
        prev = t
    if cur:
        out.append(cur)
    return out


def is_p(t, s):
    return t is not None and t.k == 'punct' and t.v == s


def is_i(t, s=None):
    return t is not None and t.k == 'ident' and (s is None or t.v == s)


def is_g(t, d=None):
    return t is not None and t.k == 'group' and (d is None or t.v[0] == d)


def path_idents(toks):
    return [t.v for t in toks if t.k == 'ident']


def text(toks):
    """compact text of a token list (for messages and structural comparison)"""
    parts = []
    for t in toks:
        if t.k == 'group':
            parts.append(t.v[0][0] + text(t.v[1]) + t.v[0][1])
        elif t.k == 'lit':
            kind, v = t.v
            if kind == 'string':
                parts.append(repr(v))
            else:
                tx = lit_text(kind, v)
                parts.append(tx if isinstance(tx, str) else f'<{tx[2]}>')
        else:
            parts.append(str(t.v) if isinstance(t.v, str) else repr(t.v))
    return ' '.join(parts)


def struct_fields(body):
    """`name: value, ...` inside a struct-literal or struct-declaration group -> list of (name, [attrs], value tokens)"""
    out = []
    for item in split_commas(body):
        attrs = []
        i = 0
        while i < len(item) and is_p(item[i], '#'):
            attrs.append(item[i + 1])
            i += 2
        if i < len(item) and is_i(item[i], 'pub'):
            i += 1
            if i < len(item) and is_g(item[i], '()'):
                i += 1
        if i + 1 < len(item) and item[i].k == 'ident' and is_p(item[i + 1], ':'):
            out.append((item[i].v, attrs, item[i + 2:]))
        elif i < len(item) and item[i].k == 'ident' and i + 1 == len(item):
            out.append((item[i].v, attrs, [item[i]]))      # shorthand `module,`
        elif item[i:] and is_p(item[i], '..'):
            out.append(('..', attrs, item[i + 1:]))
        else:
            raise DecodeError('cannot split field: ' + text(item))
    return out


class DecodeError(Exception):
    pass


class Item:
    def __init__(self, kind, name, toks, attrs, vis):
        self.kind, self.name, self.toks, self.attrs, self.vis = kind, name, toks, attrs, vis

    def __repr__(self):
        return f'{self.kind} {self.name}'


ITEM_KW = ('struct', 'const', 'fn', 'impl', 'mod', 'trait', 'enum', 'type', 'use', 'static')


def items(toks):
    """split a module-level token list into items"""
    out, i, n = [], 0, len(toks)
    while i < n:
        start = i
        attrs = []
        while i < n and is_p(toks[i], '#'):
            attrs.append(toks[i + 1])
            i += 2
        vis = False
        if i < n and is_i(toks[i], 'pub'):
            vis = True
            i += 1
            if i < n and is_g(toks[i], '()'):
                i += 1
        if i >= n or toks[i].k != 'ident' or toks[i].v not in ITEM_KW:
            raise DecodeError('item expected at: ' + text(toks[i:i + 6]))
        kw = toks[i].v
        if kw == 'const' and i + 1 < n and is_i(toks[i + 1], 'fn'):
            i += 1
            kw = 'fn'
        j = i + 1
        name = None
        if kw == 'impl':
            # impl [<..>] Path [for Path] { }
            k = j
            while k < n and not is_g(toks[k], '{}'):
                k += 1
            name = text(toks[j:k])
            out.append(Item(kw, name, toks[start:k + 1], attrs, vis))
            i = k + 1
            continue
        name = toks[j].v if j < n and toks[j].k in ('ident',) else (('_' if is_p(toks[j], '_') else None))
        k = j
        if kw in ('struct', 'const', 'static', 'type', 'use'):
            # ends at ';' or (for struct) at the brace group
            while k < n:
                if is_p(toks[k], ';'):
                    break
                if kw == 'struct' and is_g(toks[k], '{}'):
                    break
                k += 1
        else:
            while k < n and not is_g(toks[k], '{}'):
                k += 1
        out.append(Item(kw, name, toks[start:k + 1], attrs, vis))
        i = k + 1
    return out


def find_items(its, kind=None, name=None):
    return [x for x in its if (kind is None or x.kind == kind) and (name is None or x.name == name)]


def body_of(item):
    """token list inside the item's trailing brace group"""
    g = item.toks[-1]
    if not is_g(g, '{}'):
        raise DecodeError(f'{item} has no body')
    return g.v[1]


def const_parts(item):
    """`[pub] const NAME: TYPE = VALUE;` -> (type tokens, value tokens)"""
    t = item.toks
    i = next(k for k, x in enumerate(t) if is_i(x, 'const'))
    assert is_p(t[i + 2], ':'), text(t)
    j = next(k for k in range(i + 3, len(t)) if is_p(t[k], '='))
    end = len(t) - 1 if is_p(t[-1], ';') else len(t)
    return t[i + 3:j], t[j + 1:end]


def fn_parts(item):
    """-> (generics tokens, params group tokens, return type tokens, body tokens)"""
    t = item.toks
    i = next(k for k, x in enumerate(t) if is_i(x, 'fn'))
    j = i + 2
    gen = []
    if is_p(t[j], '<'):
        depth = 0
        while True:
            if is_p(t[j], '<'):
                depth += 1
            elif is_p(t[j], '>'):
                depth -= 1
            gen.append(t[j])
            j += 1
            if depth == 0:
                break
    assert is_g(t[j], '()'), text(t[:j + 1])
    params = t[j].v[1]
    ret = []
    k = j + 1
    if k < len(t) and is_p(t[k], '->'):
        k += 1
        while not is_g(t[k], '{}'):
            ret.append(t[k])
            k += 1
    return gen, params, ret, t[-1].v[1]


def derive_list(attrs):
    """attrs = list of bracket groups; returns (derives: list of text, repr: list of text, others)"""
    derives, reprs, others = [], [], []
    for a in attrs:
        inner = a.v[1]
        if inner and is_i(inner[0], 'derive'):
            derives += [text(x).replace(' ', '') for x in split_commas(inner[1].v[1])]
        elif inner and is_i(inner[0], 'repr'):
            reprs += [text(x) for x in split_commas(inner[1].v[1])]
        else:
            others.append(text(inner))
    return derives, reprs, others


STAGE_BITS = {'VERTEX': 1, 'FRAGMENT': 2, 'COMPUTE': 4, 'VERTEX_FRAGMENT': 3, 'NONE': 0}


def eval_stages(toks):
    """value of a `wgpu::ShaderStages` constant expression: path constants, `::all()`, `.union(..)`"""
    acc, i, n = 0, 0, len(toks)

    def atom(i):
        # wgpu :: ShaderStages :: X   |  wgpu :: ShaderStages :: all ( )
        if not (is_i(toks[i], 'wgpu') and is_p(toks[i + 1], '::') and is_i(toks[i + 2], 'ShaderStages') and is_p(toks[i + 3], '::')):
            raise DecodeError('stage expression: ' + text(toks))
        nm = toks[i + 4].v
        if nm == 'all':
            if not (i + 5 < n and is_g(toks[i + 5], '()') and not toks[i + 5].v[1]):
                raise DecodeError('stage expression: ' + text(toks))
            return 7, i + 6
        if nm not in STAGE_BITS:
            raise DecodeError('unknown stage constant ' + str(nm))
        return STAGE_BITS[nm], i + 5
    acc, i = atom(0)
    while i < n:
        if is_p(toks[i], '.') and is_i(toks[i + 1], 'union') and is_g(toks[i + 2], '()'):
            acc |= eval_stages(toks[i + 2].v[1])
            i += 3
        else:
            raise DecodeError('stage expression: ' + text(toks))
    return acc
