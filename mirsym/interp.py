"""Path-replay symbolic interpreter for rustc MIR text (`-Zunpretty=mir`) of the wgsl_to_wgpu crate.

* crate-local callees are interpreted from their own MIR; every other callee needs a model (models.py)
* a path = list of decisions taken at symbolic branch points; each new path re-executes from the entry under a
  decision prefix (no state copying, so models are plain recursive Python that may call back into the interpreter)
* branch feasibility is decided by z3 under the current path condition; `unknown` is a hard error
"""
import re
import time
import ast
import z3
from .values import *

INT_BITS = {'u8': 8, 'u16': 16, 'u32': 32, 'u64': 64, 'u128': 128, 'usize': 64,
            'i8': 8, 'i16': 16, 'i32': 32, 'i64': 64, 'i128': 128, 'isize': 64}
DISC = {'None': 0, 'Some': 1, 'Ok': 0, 'Err': 1, 'Continue': 0, 'Break': 1}


class PathLimit(Exception):
    pass


class CostCap(Exception):
    """a per-path invocation cap set by the harness was exceeded (used by the cost property)"""


class Interp:
    def __init__(self, bodies, models, consts, env=None, max_paths=200000, timeout_s=None):
        self.bodies, self.models, self.consts = bodies, models, consts
        self.env = env or {}
        self.solver = z3.Solver()
        self.solver.set('timeout', 120000)
        self.max_paths, self.timeout_s = max_paths, timeout_s
        self.stats = {'paths': 0, 'queries': 0, 'solver_s': 0.0, 'blocks': 0, 'calls': {}, 'models': {}}
        self.path_calls = {}
        self._resolve_cache = {}
        self._model_cache = {}
        self.cmap = {}
        for n, b in bodies.items():
            if '{closure#' in n and 1 in b.locals and 'promoted' not in n:
                t = b.locals[1]
                self.cmap[re.sub(r'^&(mut )?', '', t)] = (n, t.startswith('&'))
        self.fresh_n = 0
        self.gstack = []        # generic instantiations of the crate-local generic bodies being interpreted
        self.base = []          # assumptions of the harness (list of z3 Bool)
        # trait impls of the crate itself: `<T as Trait>::m` at call sites, `<impl at file:line>::m` in body headers
        self.impls = {}
        for n, b in bodies.items():
            m = re.match(r'^(?:\w+::)*<impl at [^>]*>::(\w+)$', n)
            if m:
                src_t = b.locals[1] if (1 in b.locals and b.nargs >= 1) else (b.ret_ty or '')
                t = re.sub(r"^&(?:'\w+ )?(?:mut )?", '', src_t).split('<')[0].split('::')[-1]
                self.impls.setdefault((t, m.group(1)), []).append(n)

    # ---- path management (replay based DFS) -------------------------------------------------
    def explore(self, run):
        """run(interp) -> outcome; returns list of (pc, kind, outcome, extra)"""
        pending, results = [[]], []
        t0 = time.time()
        while pending:
            self.prefix = pending.pop()
            self.pos, self.pc, self.dec, self.pending = 0, list(self.base), [], pending
            self.path_calls = {}
            self.fresh_n = 0
            self.strpred = {}            # predicates decided on abstract strings on this path (same question -> same answer)
            self.path_log = []
            self.decided = {}
            self.statics = {}            # process-wide state of the interpreted crate: lives for one path
            self.stats['paths'] += 1
            if self.stats['paths'] > self.max_paths:
                raise PathLimit(f'more than {self.max_paths} paths')
            if self.timeout_s and time.time() - t0 > self.timeout_s:
                raise PathLimit(f'exploration exceeded {self.timeout_s}s')
            try:
                out = run(self)
                results.append((list(self.pc), 'ok', out, dict(self.path_calls)))
            except Panic as p:
                results.append((list(self.pc), 'panic', str(p), dict(self.path_calls)))
            except CostCap as p:
                results.append((list(self.pc), 'cost', str(p), dict(self.path_calls)))
        return results

    def fresh(self, name, sort):
        """fresh symbolic constant whose name is stable across replays of the same path prefix"""
        self.fresh_n += 1
        n = f'{name}!{self.fresh_n}'
        if sort == 'bool':
            return z3.Bool(n)
        return z3.BitVec(n, sort)

    def sat(self, extra):
        self.stats['queries'] += 1
        t0 = time.time()
        self.solver.push()
        for c in self.pc:
            self.solver.add(c)
        self.solver.add(extra)
        r = self.solver.check()
        self.solver.pop()
        self.stats['solver_s'] += time.time() - t0
        if r == z3.unknown:
            raise Unsupported('solver unknown on a branch query')
        return r == z3.sat

    def decide(self, options):
        """options: mutually exclusive, exhaustive list of z3 Bool / python bool.  Returns the chosen index."""
        opts = [z3.simplify(o) if is_sym(o) else bool(o) for o in options]
        for i, o in enumerate(opts):
            if o is True or (is_sym(o) and z3.is_true(o)):
                return i
        live = [i for i, o in enumerate(opts) if not (o is False or (is_sym(o) and z3.is_false(o)))]
        # the same question asked again on this path (e.g. a symbolic handle indexed twice) has the same answer
        key = tuple(o.get_id() if is_sym(o) else o for o in opts)
        hit = self.decided.get(key)
        if hit is not None:
            return hit
        if self.pos < len(self.prefix):
            i = self.prefix[self.pos]
        else:
            feas = [i for i in live if self.sat(opts[i])]
            if not feas:
                raise Unsupported('no feasible branch (path condition unsatisfiable?)')
            i = feas[0]
            for j in feas[1:]:
                self.pending.append(self.dec + [j])
        self.dec.append(i)
        self.pos += 1
        self.pc.append(opts[i])
        self.decided[key] = i
        self._keep = getattr(self, '_keep', [])
        self._keep.append(opts)          # keep the ASTs alive so that ids stay unique
        return i

    def truth(self, b):
        if isinstance(b, bool):
            return b
        if isinstance(b, int):
            return b != 0
        if z3.is_bv(b):
            b = b != 0
        return self.decide([b, z3.Not(b)]) == 0

    def concretize(self, v, candidates):
        """fork on the value of a symbolic term among `candidates` (python ints); other values -> None"""
        if not is_sym(v):
            return v
        conds = [v == z3.BitVecVal(c, v.size()) for c in candidates]
        i = self.decide(conds + [z3.Not(z3.Or(conds)) if conds else True])
        return candidates[i] if i < len(candidates) else None

    # ---- calls -------------------------------------------------------------------------------
    def count(self, name):
        self.stats['calls'][name] = self.stats['calls'].get(name, 0) + 1
        n = self.path_calls[name] = self.path_calls.get(name, 0) + 1
        caps = self.env.get('call_caps')
        if caps and name in caps and n > caps[name]:
            raise CostCap(f'{name} entered more than {caps[name]} times on one path')
        if caps and '*' in caps:
            # total number of interpreted calls of crate functions on this path (whatever helper does the work)
            t = self.path_calls['*total'] = self.path_calls.get('*total', 0) + 1
            if t > caps['*']:
                raise CostCap(f'more than {caps["*"]} calls of crate functions on one path')

    def call(self, name, args):
        body = self.bodies.get(name)
        if body is None:
            return self.call_model(name, args)
        self.count(name)
        if self.env.get('trace'):
            print('  CALL', name, [repr(x)[:60] for x in args])
            r = self.run_body(body, args)
            print('  RET ', name, repr(r)[:80])
            return r
        return self.run_body(body, args)

    def run_body(self, body, args):
        cells = {i: Cell() for i in body.locals}
        cells.setdefault(0, Cell())
        for i, a in enumerate(args):
            cells[i + 1].v = a
        bb = 0
        name = body.name
        while True:
            self.stats['blocks'] += 1
            stmts, term = body.blocks[bb]
            for st in stmts:
                if st[0] == 'assign':
                    v = self.rvalue(body, cells, st[2], st[1])
                    self.place(cells, st[1]).set(v)
                elif st[0] == 'unparsed':
                    raise Unsupported(f'MIR statement the parser does not know, in {name}: {st[1][:120]} ({st[2]})')
                elif st[0] == 'setdisc':
                    raise Unsupported('SetDiscriminant statement in ' + name)
            k = term[0]
            if k == 'goto':
                bb = term[1]
            elif k == 'return':
                return cells[0].v
            elif k == 'drop':
                bb = term[2]
            elif k == 'unreachable':
                raise Unsupported('unreachable reached in ' + name)
            elif k == 'switch':
                v = self.operand(cells, term[1])
                tg, other = term[2], term[3]
                if isinstance(v, bool):
                    v = int(v)
                if isinstance(v, int):
                    bb = next((t for val, t in tg if val == v), other)
                    if bb is None:
                        raise Unsupported(f'switch without target for {v} in {name}')
                else:
                    if z3.is_bool(v):
                        conds = [(z3.Not(v) if val == 0 else v) for val, _ in tg]
                    else:
                        conds = [v == z3.BitVecVal(val, v.size()) for val, _ in tg]
                    opts = list(conds)
                    if other is not None:
                        opts.append(z3.Not(z3.Or(conds)) if conds else True)
                    i = self.decide(opts)
                    bb = tg[i][1] if i < len(tg) else other
            elif k == 'assert':
                c = self.operand(cells, term[1])
                okv = self.truth(c) == term[2]
                if not okv:
                    raise Panic('assert failed: ' + term[3])
                bb = term[4]
            elif k == 'call':
                _, dest, callee, aops, ret = term
                avals = [self.operand(cells, a) for a in aops]
                if callee.startswith(('move _', 'copy _')):
                    raise Unsupported('indirect call in ' + name)
                target = self.resolve(callee)
                if target != callee and target in self.bodies and callee.endswith('>') and '::<' in callee:
                    # crate-local generic body: remember the instantiation for models that need a static type
                    self.gstack.append(callee[callee.rindex('::<') + 3:-1])
                    try:
                        r = self.call(target, avals)
                    finally:
                        self.gstack.pop()
                else:
                    r = self.call(target, avals)
                if ret is None:
                    raise Unsupported('diverging call returned: ' + callee)
                self.place(cells, dest).set(r)
                bb = ret
            else:
                raise Unsupported(f'terminator {k} in {name}')

    def naga_scalar_const(self, name):
        """associated constants of naga::Scalar (I32, F32, BOOL ...), read from the locked naga source"""
        tbl = getattr(Interp, '_scalar_consts', None)
        if tbl is None:
            import glob
            src = open(glob.glob('/root/.cargo/registry/src/*/naga-24.0.0/src/proc/mod.rs')[0]).read()
            widths = {'crate::BOOL_WIDTH': 1, 'crate::ABSTRACT_WIDTH': 8}
            tbl = {}
            for n, k, w in re.findall(r'pub const (\w+): Self = Self \{\s*kind: crate::ScalarKind::(\w+),\s*width: ([\w:]+),', src):
                tbl[n] = (k, int(w) if w.isdigit() else widths[w])
            Interp._scalar_consts = tbl
        if name not in tbl:
            raise Unsupported('naga::Scalar::' + name)
        kind, width = tbl[name]
        sch = self.env.get('schema')
        disc = next(v['disc'] for v in sch['enums']['ScalarKind'] if v['name'] == kind)
        return Agg('Scalar', [Agg('ScalarKind', [], variant=kind, disc=disc), width])

    def resolve(self, callee):
        r = self._resolve_cache.get(callee)
        if r is not None:
            return r
        r = callee
        if callee not in self.bodies and callee.endswith('>') and '::<' in callee:
            # crate-local generic function: the body is listed without its instantiation (`f::<T>` -> `f`)
            base = callee[:callee.rindex('::<')]
            if base in self.bodies or any(base.split('::', k)[-1] in self.bodies for k in range(1, base.count('::') + 1)):
                callee_key, callee = callee, base
                r = self.resolve(base)
                self._resolve_cache[callee_key] = r
                return r
        if callee not in self.bodies:
            short = callee.split('::')
            for n in range(1, len(short)):
                c = '::'.join(short[n:])
                if c in self.bodies:
                    r = c
                    break
            else:
                m = re.match(r'^<([\w:]+) as [\w:<>, ]+>::(\w+)$', callee)
                if m is None:
                    # inherent impl of a crate-local type: `Type::method` at the call site, `<impl at file:line>::method` as body name
                    m = re.match(r'^(?:\w+::)*(\w+)(?:::<[^>]*>)?::(\w+)$', callee)
                if m:
                    cands = self.impls.get((m.group(1).split('::')[-1], m.group(2)), [])
                    if len(cands) == 1:
                        r = cands[0]
        self._resolve_cache[callee] = r
        return r

    def call_model(self, name, args):
        fn = self._model_cache.get(name)
        if fn is None:
            key = re.sub(r'\{closure@[^}]*\}', '{C}', name)
            for pat, f in self.models:
                if pat.search(key):
                    fn = f
                    break
            if fn is None:
                raise Unsupported('no model for callee ' + name)
            self._model_cache[name] = fn
        self.stats['models'][fn.__name__] = self.stats['models'].get(fn.__name__, 0) + 1
        if self.env.get('trace') and re.search(self.env['trace'], name):
            r = fn(self, name, args)
            print('    MODEL', name[:90], [repr(x)[:50] for x in args], '->', repr(r)[:60])
            return r
        return fn(self, name, args)

    def call_closure(self, clo, args):
        if isinstance(clo, Ref):
            clo = deref(clo)
        if isinstance(clo, FnItem):
            return self.call(self.resolve(clo.name), list(args))
        ent = self.cmap.get(clo.name)
        if ent is None:
            raise Unsupported('closure body not found: ' + clo.name)
        name, byref = ent
        env = Agg('closure', clo.caps)
        self_arg = mkref(env) if byref else env
        return self.call(name, [self_arg] + list(args))

    # ---- places / operands / rvalues -----------------------------------------------------------
    def place(self, cells, pl):
        local, projs = pl
        ref = Ref(cells[local])
        for p in projs:
            k = p[0]
            if k == 'deref':
                r = ref.get()
                if isinstance(r, Ref):
                    ref = r
                elif isinstance(r, (list, VecV)) or r is None:
                    pass                         # &[T] / Box are represented by the container itself
                elif isinstance(r, Agg) and r.path == 'Box':
                    ref = ref.proj(0)
                else:
                    ref = mkref(r) if not isinstance(r, Ref) else r
            elif k == 'field':
                ref = ref.proj(p[1])
            elif k == 'downcast':
                v = ref.get()
                if isinstance(v, Agg) and isinstance(v.fields, dict):
                    ref = ref.proj(p[1])
            elif k == 'index':
                i = cells[p[1]].v
                v = ref.get()
                n = len(v.items if isinstance(v, VecV) else v)
                if is_sym(i):
                    i = self.concretize(i, list(range(n)))
                    if i is None:
                        raise Panic('index out of bounds')
                ref = ref.proj(i)
            elif k == 'constindex':
                ref = ref.proj(p[1])
            else:
                raise Unsupported('projection ' + k)
        return ref

    def operand(self, cells, op):
        if op[0] == 'copy':
            return copy_val(self.place(cells, op[1]).get())
        if op[0] == 'move':
            return self.place(cells, op[1]).get()
        return self.const(op[1])

    def const(self, s):
        if s.startswith('"'):
            return ast.literal_eval(s) if '\\u{' not in s else rust_str(s)
        if s.startswith('b"'):
            return ast.literal_eval(s)
        if s in ('true', 'false'):
            return s == 'true'
        if len(s) >= 3 and s[0] == "'" and s[-1] == "'":
            return ord(rust_str('"' + s[1:-1] + '"'))
        m = re.match(r'^(-?\d+)_(\w+)$', s)
        if m:
            return int(m.group(1))
        if s == '()':
            return unit()
        if 'promoted[' in s:
            return self.call(self.resolve(s), [])
        if s in self.consts:
            return copy_val(self.consts[s])
        ic = getattr(self.bodies, 'inline_consts', None) or {}
        if ic:
            parts = s.split('::')
            for k in range(len(parts)):
                key = '::'.join(parts[k:])
                if key in ic:
                    return self.const(ic[key])
        if re.match(r'^[\w:]+$', s):
            r = self.resolve(s)
            if r in self.bodies and self.bodies[r].nargs == 0:
                return self.call(r, [])       # a named constant of the crate itself
        if 'HasIterator' in s:
            return Agg('HasIterator', [])
        m = re.match(r'^\{(alloc\d+): &', s)
        if m:
            allocs = getattr(self.bodies, 'allocs', None) or {}
            name = allocs.get(m.group(1))
            if name is None:
                raise Unsupported('reference to unknown allocation ' + s)
            cell = self.statics.get(name)
            if cell is None:
                body = self.bodies.get(name) or self.bodies.get(name.split('::')[-1])
                if body is None:
                    raise Unsupported('static without a MIR body: ' + name)
                cell = Cell(self.run_body(body, []))
                self.statics[name] = cell
                self.env.setdefault('statics_touched', []).append(name)
            return Ref(cell)
        m = re.match(r'ZeroSized: (\{closure@.*\})$', s)
        if m:
            return Closure(m.group(1), [])
        m = re.match(r'(.*)::\{constant#\d+\}$', s)
        if m and s in self.bodies:
            return self.call(s, [])
        if re.match(r'Option::<.*>::None$', s):
            return none()
        m = re.match(r'^(-?[\d.]+(e-?\d+)?)(f32|f64)$', s)
        if m:
            return float(m.group(1))
        m = re.match(r'ZeroSized: (.*)$', s)
        if m:
            return FnItem(m.group(1))
        m = re.match(r'^naga::proc::<impl naga::Scalar>::(\w+)$', s)
        if m:
            return self.naga_scalar_const(m.group(1))
        raise Unsupported('const operand ' + s)

    def optype(self, body, op):
        if op[0] in ('copy', 'move'):
            local, projs = op[1]
            if not projs:
                return body.locals.get(local, '')
            last = projs[-1]
            return ''
        m = re.match(r'^-?\d+_(\w+)$', op[1])
        return m.group(1) if m else ''

    def rvalue(self, body, cells, rv, dest=None):
        k = rv[0]
        if k == 'use':
            return self.operand(cells, rv[1])
        if k == 'ref':
            return self.place(cells, rv[1])
        if k == 'tuple':
            return Agg('()', [self.operand(cells, o) for o in rv[1]])
        if k == 'array':
            return [self.operand(cells, o) for o in rv[1]]
        if k == 'repeat':
            n = int(re.match(r'(\d+)', rv[2]).group(1)) if re.match(r'\d+', rv[2]) else None
            if n is None:
                raise Unsupported('repeat count ' + rv[2])
            v = self.operand(cells, rv[1])
            return [copy_val(v) for _ in range(n)]
        if k == 'adt':
            path = rv[1]
            flat = path
            while True:
                n = re.sub(r'<[^<>]*>', '', flat)
                if n == flat:
                    break
                flat = n
            segs = [x for x in flat.split('::') if x]
            var = segs[-1]
            ty = segs[-2] if len(segs) > 1 else segs[-1]
            if len(segs) == 1 and dest is not None and not dest[1]:
                # variant imported by `use`: the enum is the type of the destination local
                lt = body.locals.get(dest[0], '')
                while True:
                    n2 = re.sub(r'<[^<>]*>', '', lt)
                    if n2 == lt:
                        break
                    lt = n2
                lt = lt.split('::')[-1].strip()
                if lt and lt != var:
                    ty = lt
            disc = DISC.get(var)
            if disc is None:
                disc = self.enum_disc(ty, var)
            return Agg(ty if disc is not None else var, [self.operand(cells, o) for o in rv[2]], variant=var, disc=disc)
        if k == 'closure':
            return Closure(rv[1], [self.operand(cells, o) for o in rv[2]])
        if k == 'discriminant':
            v = self.place(cells, rv[1]).get()
            if isinstance(v, Agg) and v.disc is not None:
                return v.disc
            raise Unsupported(f'discriminant of {v!r}')
        if k == 'len':
            v = self.place(cells, rv[1]).get()
            return len(v.items if isinstance(v, VecV) else v)
        if k == 'cast':
            v = self.operand(cells, rv[1])
            kind, ty = rv[3], rv[2]
            if kind == 'IntToInt':
                if ty not in INT_BITS:
                    raise Unsupported('cast to ' + ty)
                w = INT_BITS[ty]
                if is_sym(v):
                    if z3.is_bool(v):
                        v = z3.If(v, z3.BitVecVal(1, w), z3.BitVecVal(0, w))
                        return v
                    src = self.optype(body, rv[1])
                    signed = src.startswith('i') and src in INT_BITS
                    if w > v.size():
                        return z3.SignExt(w - v.size(), v) if signed else z3.ZeroExt(w - v.size(), v)
                    if w < v.size():
                        return z3.Extract(w - 1, 0, v)
                    return v
                if isinstance(v, bool):
                    v = int(v)
                v &= (1 << w) - 1
                if ty.startswith('i') and v >= 1 << (w - 1):
                    v -= 1 << w
                return v
            if kind.startswith('PointerCoercion') or kind in ('PtrToPtr', 'Transmute'):
                v2 = deref1(v) if isinstance(v, Ref) and isinstance(deref1(v), (list, VecV)) else v
                return v2
            raise Unsupported('cast kind ' + kind)
        if k == 'binop':
            a, b = self.operand(cells, rv[2]), self.operand(cells, rv[3])
            return self.binop(body, rv[1], a, b, rv[2], rv[3])
        if k == 'unop':
            a = self.operand(cells, rv[2])
            if rv[1] == 'Not':
                if isinstance(a, bool):
                    return not a
                if is_sym(a):
                    return z3.Not(a) if z3.is_bool(a) else ~a
                t = self.optype(body, rv[2])
                return ~a & ((1 << INT_BITS.get(t, 64)) - 1)
            if rv[1] == 'PtrMetadata':
                a = deref(a)
                return len(a.items if isinstance(a, VecV) else a)
            if rv[1] == 'Neg' and is_sym(a) and z3.is_fp(a):
                return z3.fpNeg(a)
            if rv[1] == 'Neg':
                return -a
        raise Unsupported('rvalue ' + k + ' ' + str(rv[1]))

    def enum_disc(self, ty, var):
        sch = self.env.get('schema')
        if sch is None:
            return None
        e = sch['enums'].get(ty)
        if e is None:
            return None
        for v in e:
            if v['name'] == var:
                return v['disc']
        return None

    def binop(self, body, op, a, b, oa, ob):
        if (is_sym(a) and z3.is_fp(a)) or (is_sym(b) and z3.is_fp(b)):
            # IEEE-754 semantics (z3 floating-point theory, round-to-nearest-even like Rust)
            srt = a.sort() if (is_sym(a) and z3.is_fp(a)) else b.sort()
            a = a if is_sym(a) else z3.FPVal(float(a), srt)
            b = b if is_sym(b) else z3.FPVal(float(b), srt)
            cmp_ = {'Eq': z3.fpEQ, 'Ne': z3.fpNEQ, 'Lt': z3.fpLT, 'Le': z3.fpLEQ, 'Gt': z3.fpGT, 'Ge': z3.fpGEQ}
            if op in cmp_:
                return cmp_[op](a, b)
            ar = {'Add': z3.fpAdd, 'Sub': z3.fpSub, 'Mul': z3.fpMul, 'Div': z3.fpDiv}
            if op in ar:
                return ar[op](z3.RNE(), a, b)
            raise Unsupported('floating-point binop ' + op)
        if isinstance(a, bool) and not isinstance(b, bool) and not is_sym(b):
            a = int(a)
        sym = is_sym(a) or is_sym(b)
        ta = self.optype(body, oa) or self.optype(body, ob)
        signed = ta.startswith('i') and ta in INT_BITS
        w = INT_BITS.get(ta)
        if sym:
            if is_sym(a) and z3.is_bv(a):
                w = a.size()
            elif is_sym(b) and z3.is_bv(b):
                w = b.size()
            if w is not None and not (is_sym(a) and z3.is_bool(a)) and not (is_sym(b) and z3.is_bool(b)):
                if not is_sym(a):
                    a = z3.BitVecVal(int(a), w)
                if not is_sym(b):
                    b = z3.BitVecVal(int(b), w)
        if op == 'Eq':
            return a == b
        if op == 'Ne':
            return a != b
        if op in ('BitAnd', 'BitOr', 'BitXor'):
            if isinstance(a, bool) and isinstance(b, bool):
                return {'BitAnd': a and b, 'BitOr': a or b, 'BitXor': a != b}[op]
            if sym and (z3.is_bool(a) if is_sym(a) else isinstance(a, bool)):
                return {'BitAnd': z3.And, 'BitOr': z3.Or, 'BitXor': z3.Xor}[op](a, b)
            return {'BitAnd': lambda: a & b, 'BitOr': lambda: a | b, 'BitXor': lambda: a ^ b}[op]()
        if op in ('Lt', 'Le', 'Gt', 'Ge'):
            if not sym:
                return {'Lt': a < b, 'Le': a <= b, 'Gt': a > b, 'Ge': a >= b}[op]
            if signed:
                return {'Lt': a < b, 'Le': a <= b, 'Gt': a > b, 'Ge': a >= b}[op]
            return {'Lt': z3.ULT, 'Le': z3.ULE, 'Gt': z3.UGT, 'Ge': z3.UGE}[op](a, b)
        if op in ('Add', 'Sub', 'Mul', 'AddUnchecked', 'SubUnchecked'):
            o = op[:3]
            r = {'Add': lambda: a + b, 'Sub': lambda: a - b, 'Mul': lambda: a * b}[o]()
            if not sym and w:
                r = wrap(r, w, signed)
            return r
        if op in ('AddWithOverflow', 'SubWithOverflow', 'MulWithOverflow'):
            o = op[:3]
            if not sym:
                r = {'Add': a + b, 'Sub': a - b, 'Mul': a * b}[o]
                ww = w or 64
                lo, hi = (-(1 << (ww - 1)), (1 << (ww - 1)) - 1) if signed else (0, (1 << ww) - 1)
                return Agg('()', [wrap(r, ww, signed), not (lo <= r <= hi)])
            if o == 'Add':
                ov = z3.Not(z3.BVAddNoOverflow(a, b, signed))
                if signed:
                    ov = z3.Or(ov, z3.Not(z3.BVAddNoUnderflow(a, b)))
                return Agg('()', [a + b, ov])
            if o == 'Sub':
                ov = z3.Not(z3.BVSubNoUnderflow(a, b, signed))
                if signed:
                    ov = z3.Or(ov, z3.Not(z3.BVSubNoOverflow(a, b)))
                return Agg('()', [a - b, ov])
            ov = z3.Not(z3.BVMulNoOverflow(a, b, signed))
            if signed:
                ov = z3.Or(ov, z3.Not(z3.BVMulNoUnderflow(a, b)))
            return Agg('()', [a * b, ov])
        if op in ('Div', 'Rem'):
            if not sym:
                if b == 0:
                    raise Panic('attempt to divide by zero')
                q = abs(a) // abs(b) * (1 if (a >= 0) == (b >= 0) else -1)
                return q if op == 'Div' else a - q * b
            if signed:
                return a / b if op == 'Div' else z3.SRem(a, b)
            return z3.UDiv(a, b) if op == 'Div' else z3.URem(a, b)
        if op in ('Shl', 'Shr', 'ShlUnchecked', 'ShrUnchecked'):
            if not sym:
                r = (a << b) if op.startswith('Shl') else (a >> b)
                return wrap(r, w or 64, signed)
            if is_sym(b) and is_sym(a) and b.size() != a.size():
                b = z3.ZeroExt(a.size() - b.size(), b) if b.size() < a.size() else z3.Extract(a.size() - 1, 0, b)
            if op.startswith('Shl'):
                return a << b
            return (a >> b) if signed else z3.LShR(a, b)
        raise Unsupported('binop ' + op)


def wrap(r, w, signed):
    r &= (1 << w) - 1
    if signed and r >= 1 << (w - 1):
        r -= 1 << w
    return r


def rust_str(s):
    """decode a Rust string literal as printed in MIR"""
    body = s[1:-1]
    out, i = '', 0
    while i < len(body):
        c = body[i]
        if c != '\\':
            out += c
            i += 1
            continue
        n = body[i + 1]
        if n == 'u':
            j = body.index('}', i)
            out += chr(int(body[i + 3:j], 16))
            i = j + 1
        elif n == 'x':
            out += chr(int(body[i + 2:i + 4], 16))
            i += 4
        else:
            out += {'n': '\n', 't': '\t', 'r': '\r', '0': '\0', '\\': '\\', '"': '"', "'": "'"}[n]
            i += 2
    return out
