//! Real encase + glam: writes probe values of the structs the REAL generator emitted (src/generated.rs is rewritten by
//! ./check C10 from the generator's output on every run) and prints the byte images as hex.
#![allow(dead_code, non_snake_case, non_camel_case_types, unused_variables, unused_mut)]
include!("generated.rs");

fn hex(b: &[u8]) -> String {
    b.iter().map(|x| format!("{:02x}", x)).collect()
}

fn main() {
    for (name, bytes) in run() {
        println!("{} {}", name, hex(&bytes));
    }
}
