pub fn run() -> Vec<(String, Vec<u8>)> { Vec::new() }
