#!/bin/bash
# Build the framework from files on disk only (offline): native oracle, encase oracle dependencies, warm nightly MIR target dir.
set -e
cd "$(dirname "$0")"
export CARGO_NET_OFFLINE=true
mkdir -p .cache evidence
python3-vt - <<'PY'
import sys
sys.path.insert(0, '.')
from mirsym.session import Session
s = Session()
print('setup ok: MIR bodies', len(s.bodies), 'mir sha', s.mir_sha[:12])
s.close()
PY
(cd encase_oracle && CARGO_TARGET_DIR=../.cache/encase-target cargo build --offline -q && echo "encase oracle built")
