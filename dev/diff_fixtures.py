"""dev driver: concrete differential run of mirsym against the real crate on the repository's fixtures"""
import sys, glob, time, traceback
sys.path.insert(0, '/verif')
from mirsym.session import *
from mirsym.tokens import *
from mirsym import tokens as T

S = Session()
print('setup %.1fs mir %.1fs' % (S.setup_s, S.mir_s))
files = sorted(glob.glob('/repo/wgsl_to_wgpu/src/data/**/*.wgsl', recursive=True) + glob.glob('/repo/wgsl_to_wgpu/tests/wgsl/*.wgsl') + glob.glob('/repo/example/src/*.wgsl'))
only = sys.argv[1:] 
bad = 0
for f in files:
    if only and not any(o in f for o in only): continue
    src = open(f).read()
    for opts in [dict(), dict(derive_bytemuck_vertex=True, derive_bytemuck_host_shareable=True, derive_encase_host_shareable=True, derive_serde=True, matrix_vector_types='Glam'), dict(matrix_vector_types='Nalgebra', derive_encase_host_shareable=True)]:
        t0 = time.time()
        real = S.oracle.gen(src, opts)
        try:
            mod = S.module(src)
            it = S.interp(env_passthrough(mod, src))
            res = it.explore(lambda it: it.call('create_shader_module_inner', [src, none(), write_options(S.conv, **opts)]))
        except Exception as e:
            traceback.print_exc(limit=3)
            print('FAIL', f, opts, type(e).__name__, str(e)[:300]); bad += 1; break
        assert len(res) == 1, len(res)
        pc, kind, out, _ = res[0]
        if kind == 'panic':
            print('panic', f, out, '| real:', str(real)[:100]); 
            if 'panic' not in real: bad += 1
            continue
        if out.disc != 0:
            print('err', f, out, str(real)[:100]); continue
        mine = canon(out.fields[0].toks)
        if 'ok' not in real:
            print('REAL not ok', f, str(real)[:200]); bad += 1; continue
        theirs = canon(from_json(S.oracle.lex(real['ok'])['tokens']))
        d = first_diff(mine, theirs)
        print('OK ' if d is None else 'DIFF', f.split('/')[-1], list(opts.values())[-1:] , 'blocks', it.stats['blocks'], '%.2fs' % (time.time() - t0), d or '')
        if d: bad += 1
print('bad', bad)
