import sys, json
sys.path.insert(0, '/verif')
from mirsym.session import *
S = Session(); src = open(sys.argv[1]).read()
mod = S.module(src)
e = env_passthrough(mod, src); e['trace'] = sys.argv[2]
it = S.interp(e)
res = it.explore(lambda it: it.call(sys.argv[3] if len(sys.argv)>3 else 'structs', [mkref(mod), write_options(S.conv)]))
