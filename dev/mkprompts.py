#!/usr/bin/env python3
"""dev helper: write sub-agent prompts for a round of seeded changes.
usage: dev/mkprompts.py <round-number> <id>...   -> /tmp/mut/out<r>/<id>/prompt.txt (+ creates worktree /tmp/mut/wt<r>-<id>)
The prompt contains ONLY the property text, the workflow and one-line summaries of ideas already used (so the new one differs)."""
import glob
import json
import os
import subprocess
import sys

r = sys.argv[1]
ids = sys.argv[2:]
props = {json.loads(l)['id']: json.loads(l) for l in open('/verif/properties.jsonl')}
T = open('/verif/dev/prompt_template.txt').read()
HINTS = ['Style hint for this one: make the bug depend on something the current code never looks at (an option it ignores at that point, a name, an address space, the identity or order of a type or handle, an attribute of ANOTHER item in the module).',
         'Style hint for this one: put the bug in code shared by several outputs or several callers so that only ONE of the consumers gets a wrong result.',
         'Style hint for this one: aim for a boundary - exactly N items, the first / last element, index N-1 vs N, zero or u32::MAX, an empty collection, two equal keys.']
for pid in ids:
    p = props[pid]
    used = []
    for f in sorted(glob.glob(f'/verif/seeded/{pid}-*/meta.json')):
        m = json.load(open(f))
        used.append(' - ' + (m.get('breaks') or m.get('summary') or '')[:300].replace('\n', ' '))
    out = f'/tmp/mut/out{r}/{pid}'
    os.makedirs(out, exist_ok=True)
    wt = f'/tmp/mut/wt{r}-{pid}'
    subprocess.run(['git', '-C', '/repo', 'worktree', 'remove', '--force', wt], capture_output=True)
    subprocess.run(['git', '-C', '/repo', 'worktree', 'add', '-q', '--detach', wt, 'HEAD'], check=True)
    txt = (T.replace('{WT}', wt).replace('{TGT}', f'/tmp/mut/tgt{r}-{pid}').replace('{OUT}', out).replace('{ID}', pid)
           .replace('{TITLE}', p['title']).replace('{STATEMENT}', p['statement']).replace('{QUANT}', p['quantifier']['text'])
           .replace('{WHY}', p['why_tests_cant']).replace('{USED}', '\n'.join(used)).replace('{HINT}', HINTS[(int(pid[1:]) + int(r)) % 3]))
    open(out + '/prompt.txt', 'w').write(txt)
    print(out + '/prompt.txt')
