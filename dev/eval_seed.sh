#!/bin/bash
# dev helper: confirm a seeded change (suite passes, demo fails with / passes without), then run checks against it.
# usage: dev/eval_seed.sh <dir with patch.diff + demo_*.rs> <check ids...>
set -u
d="$1"; shift
name=$(basename "$d")
wt=/tmp/mut/verify-$name
export CARGO_TARGET_DIR=/tmp/mut/target-verify CARGO_NET_OFFLINE=true
git -C /repo worktree remove --force $wt 2>/dev/null
git -C /repo worktree add -q --detach $wt HEAD || exit 3
demo=$(ls $d/demo_*.rs | head -1); dn=$(basename $demo .rs)
cp $demo $wt/wgsl_to_wgpu/tests/
( cd $wt && cargo test --offline -q -p wgsl_to_wgpu --test $dn > /tmp/mut/$name.demo0.log 2>&1 ); r0=$?
( cd $wt && git apply $d/patch.diff ) || { echo "$name: PATCH DOES NOT APPLY"; git -C /repo worktree remove --force $wt; exit 3; }
( cd $wt && cargo test --offline -q -p wgsl_to_wgpu --test $dn > /tmp/mut/$name.demo1.log 2>&1 ); r1=$?
rm $wt/wgsl_to_wgpu/tests/$dn.rs
( cd $wt && cargo test --workspace --offline > /tmp/mut/$name.suite.log 2>&1 ); rs=$?
git -C /repo worktree remove --force $wt
echo "$name: demo-without-patch=$r0 demo-with-patch=$r1 suite-with-patch=$rs"
[ $r0 -eq 0 ] && [ $r1 -ne 0 ] && [ $rs -eq 0 ] || { echo "$name: NOT CONFIRMED"; exit 4; }
cd /verif; export VERIF_NO_EVIDENCE=1
git -C /repo apply $d/patch.diff || exit 3
for id in "$@"; do
  ./check $id > /tmp/mut/$name.$id.log 2>&1; rc=$?
  echo "$name: check $id exit=$rc $(grep -c '^VIOLATION' /tmp/mut/$name.$id.log) violation line(s): $(grep -A1 '^VIOLATION' /tmp/mut/$name.$id.log | grep -v '^VIOLATION' | head -1 | cut -c1-220) $(grep '^INCONCLUSIVE' /tmp/mut/$name.$id.log | head -1 | cut -c1-220)"
done
git -C /repo checkout -- .
