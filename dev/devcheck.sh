#!/bin/bash
# dev helper: run a check against a PRIVATE worktree of /repo (optionally with a seeded change applied), leaving /repo and the
# default cache alone.   usage: dev/devcheck.sh <seed name | -> <check id> [extra args]
seed=$1; id=$2; shift 2
slot=${DEVSLOT:-0}; repo=/tmp/mut/dev-repo$slot; cache=/tmp/mut/dev-cache$slot
[ -d $repo ] || { git -C /repo worktree add -q --detach $repo HEAD && cp /repo/Cargo.lock $repo/; }
mkdir -p $cache
git -C $repo checkout -q -- . ; cp /repo/Cargo.lock $repo/
[ "$seed" != "-" ] && { git -C $repo apply /verif/seeded/$seed/patch.diff || exit 3; }
cd /verif; VERIF_REPO=$repo VERIF_CACHE=$cache VERIF_NO_EVIDENCE=1 ./check $id "$@"; rc=$?
git -C $repo checkout -q -- .
exit $rc
