#!/bin/bash
# dev helper: run every seeded change against the check of its property; writes seeded/RESULTS.md
cd /verif; export VERIF_NO_EVIDENCE=1   # dev runs against modified trees must not overwrite the committed evidence
out=seeded/RESULTS.md
echo "# Seeded changes vs. checks (quick tier)" > $out
echo >> $out
echo "Each change was written by an independent sub-agent that saw only the property text; it compiles, passes the repository's whole test suite, and comes with a demonstration test that fails with it and passes without it (confirmed with dev/eval_seed.sh). Applied to /repo, checked, and reverted." >> $out
echo >> $out
echo "| seed | property | what it needs to manifest | check exit | how it was caught |" >> $out
echo "|---|---|---|---|---|" >> $out
for d in seeded/C*/; do
  name=$(basename $d); id=${name%%-*}
  git -C /repo apply /verif/$d/patch.diff || { echo "| $name | $id | (patch does not apply) | - | - |" >> $out; continue; }
  ./check $id > /tmp/mut/seedres.$name.log 2>&1; rc=$?
  git -C /repo checkout -- .
  how=$(grep -A1 '^VIOLATION' /tmp/mut/seedres.$name.log | grep -v '^VIOLATION' | grep -v '^--' | head -1 | cut -c1-160 | tr '|' '/')
  [ -z "$how" ] && how=$(grep '^INCONCLUSIVE' /tmp/mut/seedres.$name.log | head -1 | cut -c1-160 | tr '|' '/')
  needs=$(python3 -c "import json,sys; print((lambda m: m.get('needs_to_manifest') or m.get('needs') or '')(json.load(open('$d/meta.json')))[:220].replace('|','/').replace('\n',' '))")
  echo "| $name | $id | $needs | $rc | $how |" >> $out
  echo "$name exit=$rc"
done
