import sys, json
sys.path.insert(0, '/verif')
from mirsym.session import *
from mirsym.tokens import *
S = Session()
src = open(sys.argv[1]).read()
opts = json.loads(sys.argv[2]) if len(sys.argv) > 2 else {}
mod = S.module(src)
it = S.interp(env_passthrough(mod, src))
res = it.explore(lambda it: it.call('create_shader_module_inner', [src, none(), write_options(S.conv, **opts)]))
pc, kind, out, _ = res[0]
print(kind)
toks = out.fields[0].toks
for x in items(toks): print(x, derive_list(x.attrs)[0])
real = S.oracle.gen(src, opts)['ok']
rt = from_json(S.oracle.lex(real)['tokens'])
for x in items(rt): print('   real', x, derive_list(x.attrs)[0])
d = S.dump(src)
print(json.dumps(d['module']['types'])[:1500])
print([ (e['name'], e['function']['result'], [a['ty'] for a in e['function']['arguments']]) for e in d['module']['entry_points']])
