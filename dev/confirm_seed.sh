#!/bin/bash
# dev helper: confirm a seeded change only (suite passes with it; demo fails with / passes without).  usage: dev/confirm_seed.sh <dir>
set -u
d="$1"; name=$(basename "$d"); wt=/tmp/mut/verify-$name
export CARGO_TARGET_DIR=/tmp/mut/target-verify CARGO_NET_OFFLINE=true
git -C /repo worktree remove --force $wt 2>/dev/null
git -C /repo worktree add -q --detach $wt HEAD || exit 3
cp /repo/Cargo.lock $wt/ 2>/dev/null
demo=$(ls $d/demo_*.rs | head -1); dn=$(basename $demo .rs)
cp $demo $wt/wgsl_to_wgpu/tests/
( cd $wt && cargo test --offline -q -p wgsl_to_wgpu --test $dn > /tmp/mut/$name.demo0.log 2>&1 ); r0=$?
( cd $wt && git apply $d/patch.diff ) || { echo "$name: PATCH DOES NOT APPLY"; git -C /repo worktree remove --force $wt; exit 3; }
( cd $wt && cargo test --offline -q -p wgsl_to_wgpu --test $dn > /tmp/mut/$name.demo1.log 2>&1 ); r1=$?
rm $wt/wgsl_to_wgpu/tests/$dn.rs
( cd $wt && cargo test --workspace --offline > /tmp/mut/$name.suite.log 2>&1 ); rs=$?
git -C /repo worktree remove --force $wt
echo "$name: demo-without-patch=$r0 demo-with-patch=$r1 suite-with-patch=$rs"
[ $r0 -eq 0 ] && [ $r1 -ne 0 ] && [ $rs -eq 0 ] && echo "$name: CONFIRMED" || echo "$name: NOT CONFIRMED"
