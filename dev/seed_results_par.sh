#!/bin/bash
# dev helper: run seeded changes against the check of their property in N parallel workers, each on its own worktree of /repo
# (VERIF_REPO) and its own cache (VERIF_CACHE); rows are merged into seeded/RESULTS.md.   usage: dev/seed_results_par.sh N [seed names...]
cd /verif; N=$1; shift
seeds=("$@"); [ ${#seeds[@]} -eq 0 ] && seeds=($(ls -d seeded/C*/ | xargs -n1 basename))
root=/tmp/mut/par; mkdir -p $root; rm -f $root/rows.*
worker() {
  w=$1; shift
  repo=$root/repo-$w; cache=$root/cache-$w
  git -C /repo worktree remove --force $repo 2>/dev/null; git -C /repo worktree add -q --detach $repo HEAD || exit 3
  mkdir -p $cache; cp /repo/Cargo.lock $repo/Cargo.lock
  for name in "$@"; do
    d=/verif/seeded/$name; id=${name%%-*}
    git -C $repo apply $d/patch.diff || { echo "| $name | $id | (patch does not apply) | - | - |" >> $root/rows.$w; continue; }
    VERIF_REPO=$repo VERIF_CACHE=$cache VERIF_NO_EVIDENCE=1 ./check $id > $root/$name.log 2>&1; rc=$?
    git -C $repo checkout -- . ; cp /repo/Cargo.lock $repo/Cargo.lock
    how=$(grep -A1 '^VIOLATION' $root/$name.log | grep -v '^VIOLATION' | grep -v '^--' | head -1 | cut -c1-160 | tr '|' '/')
    [ -z "$how" ] && how=$(grep '^INCONCLUSIVE' $root/$name.log | head -1 | cut -c1-160 | tr '|' '/')
    needs=$(python3 -c "import json,sys; print((lambda m: m.get('needs_to_manifest') or m.get('needs') or '')(json.load(open('$d/meta.json')))[:220].replace('|','/').replace('\n',' '))")
    echo "| $name | $id | $needs | $rc | $how |" >> $root/rows.$w
    echo "$name exit=$rc"
  done
  git -C /repo worktree remove --force $repo
}
for w in $(seq 0 $((N-1))); do
  mine=(); i=0
  for s in "${seeds[@]}"; do [ $((i % N)) -eq $w ] && mine+=($s); i=$((i+1)); done
  worker $w "${mine[@]}" &
done
wait
cat $root/rows.* > $root/rows.all
python3 - $root/rows.all <<'PY'
import sys
new={l.split('|')[1].strip(): l for l in open(sys.argv[1], errors='replace') if l.startswith('|')}
p='/verif/seeded/RESULTS.md'
lines=open(p, errors='replace').read().splitlines(True)
head=[l for l in lines if not l.startswith('| C')]
old={l.split('|')[1].strip(): l for l in lines if l.startswith('| C')}
old.update(new)
open(p,'w').write(''.join(head)+''.join(old[k] for k in sorted(old)))
print(len(new), 'rows updated;', sum(1 for l in old.values() if l.split('|')[4].strip()=='1'), 'of', len(old), 'caught (exit 1)')
PY
git -C /repo worktree prune
