#!/bin/bash
# dev helper: run every registered quick check in parallel, print one line each
cd /verif; mkdir -p .cache/logs
ids=$(python3 -c "import json; print(' '.join(c['property_id'] for c in json.load(open('MANIFEST.json'))['checks']))")
tier=${1:-quick}
for id in $ids; do ( ./check $id --tier $tier > .cache/logs/$id.$tier.log 2>&1; echo "$id exit=$? $(tail -1 .cache/logs/$id.$tier.log | cut -c1-200)" ) & done; wait
