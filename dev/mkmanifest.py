"""regenerates MANIFEST.json from the table below (dev helper; the manifest itself is committed)"""
import json, os
V = '/verif'
props = [json.loads(l) for l in open(f'{V}/properties.jsonl')]
CLAIMS = json.load(open(f'{V}/dev/claims.json'))
checks, na = [], []
for p in props:
    pid = p['id']
    c = CLAIMS.get(pid)
    if c is None or c.get('na'):
        na.append({'property_id': pid, 'reason': (c or {}).get('na', 'check not built yet (work in progress)')})
        continue
    checks.append({
        'property_id': pid,
        'quick_cmd': f'./check {pid} --tier quick',
        'thorough_cmd': f'./check {pid} --tier thorough',
        'evidence_file': f'/verif/evidence/{pid}.json',
        'replay_cmd_template': f'./check {pid} --replay {{path}}',
        'engine': 'mirsym',
        'level_claimed': {'category': 'model_checking', 'text': c['text'], 'design_ref': c.get('ref', 'DESIGN.md §4 ' + pid)},
        'level_note': c['note'],
        'technique': c.get('technique', 'bounded symbolic execution of the crate\'s MIR (regenerated per run) with z3 deciding every branch and every assertion; counterexamples replayed natively'),
    })
m = {
    'version': 1,
    'setup_cmd': './setup.sh',
    'hooks': {'guard': 'none', 'enable': 'no source hooks: private functions are reached through the compiler\'s MIR dump of the unmodified crate',
              'baseline_off_cmd': 'cd /repo && cargo test --workspace --no-fail-fast --offline', 'source_commits': [], 'add_only': True},
    'engines': [
        {'name': 'mirsym', 'path': '/verif/mirsym', 'serves_properties': [c['property_id'] for c in checks],
         'kind_free_text': 'symbolic interpreter for rustc -Zunpretty=mir text of wgsl_to_wgpu (path-replay DFS, z3 for branch feasibility and assertion queries, Python models of library callees, native oracle for replay and translator validation)'},
    ],
    'checks': checks,
    'not_applicable': na,
    'notes': 'exit 0 = held (KNOWN-FINDING lines possible), 1 = VIOLATION reproduced natively, 2 = inconclusive (never success). See DESIGN.md.',
}
json.dump(m, open(f'{V}/MANIFEST.json', 'w'), indent=1)
print(len(checks), 'checks,', len(na), 'n/a')
