import sys; sys.path.insert(0,'/verif')
from harness.c03 import *
import time
ctx = Ctx('C03','quick',0)
tpl = Template(2, [1, 2], CONTEXTS)
e0 = tpl.entries[0]
hv_top = [f for f in tpl.funcs if f['kind'] == 'v'][-1]
hv_low = [f for f in tpl.funcs if f['kind'] == 'v'][0]
tpl.entries[1]['slots']['use'].value = 'u0'
for sym in ([e0['ctx']['plain']], [e0['ctx']['plain'], hv_top['slots']['use']], [e0['ctx']['plain'], hv_top['slots']['use'], hv_top['slots']['callv']], [e0['ctx']['plain'], hv_top['slots']['use'], hv_top['slots']['callv'], hv_low['slots']['use']]):
    module, info = build(ctx, tpl, sym, [])
    t0=time.time()
    res = ctx.explore('x', lambda it: it.call('global_shader_stages', [mkref(module)]), assume=info['assume'])
    print(len(sym), len(res), '%.2f'%(time.time()-t0), ctx.harnesses[-1])
seen={}
t0=time.time()
check_stage_map(ctx, 'global_shader_stages/plain', tpl, info, res, seen)
print('check %.2f'%(time.time()-t0), ctx.queries)
