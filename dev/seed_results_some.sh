#!/bin/bash
# dev helper: like dev/seed_results.sh but only for the named seeds (e.g. C02-f C03-f); rows are merged into seeded/RESULTS.md
cd /verif; export VERIF_NO_EVIDENCE=1
tmp=$(mktemp)
for name in "$@"; do
  d=seeded/$name/; id=${name%%-*}
  git -C /repo apply /verif/$d/patch.diff || { echo "| $name | $id | (patch does not apply) | - | - |" >> $tmp; continue; }
  ./check $id > /tmp/mut/seedres.$name.log 2>&1; rc=$?
  git -C /repo checkout -- .
  how=$(grep -A1 '^VIOLATION' /tmp/mut/seedres.$name.log | grep -v '^VIOLATION' | grep -v '^--' | head -1 | cut -c1-160 | tr '|' '/')
  [ -z "$how" ] && how=$(grep '^INCONCLUSIVE' /tmp/mut/seedres.$name.log | head -1 | cut -c1-160 | tr '|' '/')
  needs=$(python3 -c "import json,sys; print((lambda m: m.get('needs_to_manifest') or m.get('needs') or '')(json.load(open('$d/meta.json')))[:220].replace('|','/').replace('\n',' '))")
  echo "| $name | $id | $needs | $rc | $how |" >> $tmp
  echo "$name exit=$rc"
done
python3 - "$tmp" <<'PY'
import sys,re
new={l.split('|')[1].strip(): l for l in open(sys.argv[1]) if l.startswith('|')}
p='/verif/seeded/RESULTS.md'
lines=open(p).read().splitlines(True)
out=[]; seen=set()
for l in lines:
    k=l.split('|')[1].strip() if l.startswith('| C') else None
    if k in new:
        out.append(new[k]); seen.add(k)
    else:
        out.append(l)
rows=[new[k] for k in sorted(new) if k not in seen]
body=[l for l in out if l.startswith('| C')]
head=[l for l in out if not l.startswith('| C')]
allrows=sorted(body+rows, key=lambda l: l.split('|')[1].strip())
open(p,'w').write(''.join(head)+''.join(allrows))
PY
rm -f $tmp
